#!/bin/sh
# offline set-up: z3-solver (+jsonschema for self-validation) into /verif/.deps from the wheelhouse
set -e
cd "$(dirname "$0")"
if [ ! -d .deps/z3 ]; then
  /venv/bin/python -m pip install --no-index --find-links /opt/veriftools/wheels --target .deps -q z3-solver jsonschema
fi
/venv/bin/python -c "import sys; sys.path.insert(0,'.deps'); import z3; print('z3', z3.get_version_string())"
