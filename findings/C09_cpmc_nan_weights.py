"""Demonstration (against the real code) of the defect repaired by the "fix:" commit that makes the last weight guard of the CPMC
propagators NaN-safe.  Exit 1 if a weight or the population-control shift comes back NaN.

(a) double constraint: a walker with positive trial overlap for which both values of the auxiliary field of site 0 give a
    non-positive overlap -> norm = 0, overlap 0, 0 * inf = NaN weight, NaN shift (which then poisons every walker in the next step);
(b) extinction: after a step in which every walker was killed the code's own shift update gives +inf; the next step multiplies
    the zero weights by exp(dt * inf) = inf -> NaN, and `NaN > 100` is False.
"""
import sys
import numpy as np
sys.path.insert(0, "/verif")
from vf import runner
runner.setup_env()
runner._init()
from checks import cpmcf

bad = 0
for p in cpmcf.PROPS:
    c = cpmcf.CpmcF({"type": "cpmc", "prop": p})
    for tag in ("double-constraint", "extinct"):
        args = c.example(tag)
        w, shift, ov = c._run_real(args)
        nan = bool(np.any(np.isnan(w)) or np.isnan(shift))
        bad += nan
        print(f"{cpmcf.PROPS[p]:28s} {tag:18s} weights in {np.asarray(args[0])} shift in {args[5]} -> weights {w} shift {shift} {'NaN!' if nan else 'ok'}")
sys.exit(1 if bad else 0)
