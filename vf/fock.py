"""Fock-space oracle: explicit second quantisation over 2*norb spin orbitals.

States are dicts {occupation bitmask: amplitude}.  Spin orbital p-up has index p,
p-down has index norb + p; Jordan-Wigner signs are computed operator by operator.
The oracle never uses Wick's theorem, Green's functions or half-rotated integrals:
operators are applied literally, one creation/annihilation operator at a time.
Amplitudes can be any ring with + * and conj (qdom.Q, gdom.G, Fraction, complex).
"""
import itertools
from fractions import Fraction


def popcount(x):
    return bin(x).count("1")


def ann(k, n):
    if not (n >> k) & 1:
        return None
    return (-1) ** popcount(n & ((1 << k) - 1)), n & ~(1 << k)


def cre(k, n):
    if (n >> k) & 1:
        return None
    return (-1) ** popcount(n & ((1 << k) - 1)), n | (1 << k)


def conj(x):
    if hasattr(x, "conj"):
        return x.conj()
    if isinstance(x, (int, Fraction)):
        return x
    return x.conjugate()


def iszero(x):
    if hasattr(x, "iszero"):
        return x.iszero()
    return x == 0


def _acc(out, key, val):
    if key in out:
        out[key] = out[key] + val
    else:
        out[key] = val


def apply_orb(state, coeffs):
    """apply sum_k coeffs[k] a+_k  (coeffs: dict spin-orbital -> amplitude)"""
    out = {}
    for n, a in state.items():
        for k, c in coeffs.items():
            if iszero(c):
                continue
            r = cre(k, n)
            if r:
                _acc(out, r[1], c * a * r[0])
    return out


def vacuum(one=1):
    return {0: one}


def slater(norb, Wu, Wd, one=1):
    """prod_k (sum_p Wu[p,k] a+_{p up}) prod_l (sum_p Wd[p,l] a+_{p dn}) |0>"""
    st = vacuum(one)
    for k in reversed(range(Wd.shape[1])):
        st = apply_orb(st, {norb + p: Wd[p, k] for p in range(norb)})
    for k in reversed(range(Wu.shape[1])):
        st = apply_orb(st, {p: Wu[p, k] for p in range(norb)})
    return st


def slater_general(nso, C, one=1):
    """prod_k (sum_P C[P,k] a+_P)|0> over nso general spin orbitals (GHF)"""
    st = vacuum(one)
    for k in reversed(range(C.shape[1])):
        st = apply_orb(st, {P: C[P, k] for P in range(nso)})
    return st


def det_state(norb, occ_a, occ_b, one=1):
    """|D> = prod_{p in occ_a ascending} a+_{p up} prod_{q in occ_b ascending} a+_{q dn} |0>
    (alpha string x beta string; this is the basis state itself, sign +1)"""
    n = 0
    for p in occ_a:
        n |= 1 << p
    for q in occ_b:
        n |= 1 << (norb + q)
    return {n: one}


def apply_onebody_so(mat, state, nso):
    """sum_{PQ} mat[P][Q] a+_P a_Q |state> over spin orbitals"""
    out = {}
    for n, a in state.items():
        for Q_ in range(nso):
            x = ann(Q_, n)
            if not x:
                continue
            for P in range(nso):
                m = mat[P][Q_]
                if m is None or iszero(m):
                    continue
                y = cre(P, x[1])
                if not y:
                    continue
                _acc(out, y[1], m * a * (x[0] * y[0]))
    return out


def apply_onebody(norb, mats, state):
    """sum_{pq,s} mats[s][p,q] a+_ps a_qs |state>"""
    out = {}
    for n, a in state.items():
        for s in range(2):
            for q in range(norb):
                x = ann(s * norb + q, n)
                if not x:
                    continue
                for p in range(norb):
                    m = mats[s][p, q]
                    if iszero(m):
                        continue
                    y = cre(s * norb + p, x[1])
                    if not y:
                        continue
                    _acc(out, y[1], m * a * (x[0] * y[0]))
    return out


def apply_twobody(norb, chol, state):
    """1/2 sum_g sum_{pqrs,st} L^g_pq L^g_rs a+_ps a+_rt a_st a_qs |state>"""
    out = {}
    ng = chol.shape[0]
    V = {}
    for n, a in state.items():
        for sg in range(2):
            for q in range(norb):
                x = ann(sg * norb + q, n)
                if not x:
                    continue
                for tg in range(2):
                    for s_ in range(norb):
                        y = ann(tg * norb + s_, x[1])
                        if not y:
                            continue
                        for r in range(norb):
                            z = cre(tg * norb + r, y[1])
                            if not z:
                                continue
                            for p in range(norb):
                                w = cre(sg * norb + p, z[1])
                                if not w:
                                    continue
                                key = (p, q, r, s_)
                                if key not in V:
                                    c = None
                                    for g in range(ng):
                                        t = chol[g, p, q] * chol[g, r, s_]
                                        c = t if c is None else c + t
                                    V[key] = c
                                v = V[key]
                                if v is None or iszero(v):
                                    continue
                                sign = x[0] * y[0] * z[0] * w[0]
                                _acc(out, w[1], v * a * Fraction(sign, 2))
    return out


def add_states(a, b):
    out = dict(a)
    for k, v in b.items():
        _acc(out, k, v)
    return out


def scale(state, c):
    return {k: v * c for k, v in state.items()}


def inner(bra, ket, zero=0):
    tot = None
    for n, a in bra.items():
        if n in ket:
            t = conj(a) * ket[n]
            tot = t if tot is None else tot + t
    return tot if tot is not None else zero


def apply_H(norb, h0, h1, chol, state):
    """H = h0 + sum h1[s]_pq a+_ps a_qs + 1/2 sum_g sum L^g_pq L^g_rs a+_ps a+_rt a_st a_qs"""
    out = scale(state, h0)
    out = add_states(out, apply_onebody(norb, h1, state))
    if chol.shape[0]:
        out = add_states(out, apply_twobody(norb, chol, state))
    return out


def excite(norb, spin, a, i, state):
    """a+_{a,spin} a_{i,spin} |state>"""
    out = {}
    for n, amp in state.items():
        x = ann(spin * norb + i, n)
        if not x:
            continue
        y = cre(spin * norb + a, x[1])
        if not y:
            continue
        _acc(out, y[1], amp * (x[0] * y[0]))
    return out


def E(norb, a, i, state):
    """spin-summed excitation operator E_ai = sum_s a+_as a_is"""
    return add_states(excite(norb, 0, a, i, state), excite(norb, 1, a, i, state))


# ---- brute-force dense validation of the operator algebra (run once per check) -------------


def self_test():
    """compare apply_H with dense matrices built from Jordan-Wigner matrices (numpy), norb=2"""
    import numpy as np

    norb = 2
    nso = 2 * norb
    dim = 1 << nso
    A = []
    for k in range(nso):
        M = np.zeros((dim, dim))
        for n in range(dim):
            r = ann(k, n)
            if r:
                M[r[1], n] = r[0]
        A.append(M)
    # anticommutation relations
    for i in range(nso):
        for j in range(nso):
            acomm = A[i] @ A[j].T + A[j].T @ A[i]
            assert np.allclose(acomm, np.eye(dim) * (i == j))
            assert np.allclose(A[i] @ A[j] + A[j] @ A[i], 0)
    rng = np.random.default_rng(1)
    h1 = rng.normal(size=(2, norb, norb))
    L = rng.normal(size=(2, norb, norb))
    H = 0.3 * np.eye(dim)
    for s in range(2):
        for p in range(norb):
            for q in range(norb):
                H += h1[s, p, q] * A[s * norb + p].T @ A[s * norb + q]
    for g in range(2):
        for p, q, r, s_ in itertools.product(range(norb), repeat=4):
            for sg in range(2):
                for tg in range(2):
                    H += 0.5 * L[g, p, q] * L[g, r, s_] * (
                        A[sg * norb + p].T @ A[tg * norb + r].T @ A[tg * norb + s_] @ A[sg * norb + q])
    v = rng.normal(size=dim)
    st = {n: v[n] for n in range(dim)}
    out = apply_H(norb, 0.3, h1, L, st)
    w = np.array([out.get(n, 0.0) for n in range(dim)], dtype=float)
    assert np.allclose(w, H @ v), "Fock oracle disagrees with dense second quantisation"
    # Slater determinant amplitudes = products of minors
    Wu = rng.normal(size=(norb, 1))
    Wd = rng.normal(size=(norb, 2))
    st = slater(norb, Wu, Wd)
    assert abs(st[0b1101] - Wu[0, 0] * np.linalg.det(Wd)) < 1e-12
    return True


def apply_twobody_so(nso, Lso, state):
    """1/2 sum_g sum_{PQRS} L^g_PQ L^g_RS a+_P a+_R a_S a_Q over general spin orbitals
    (Lso[g] is the spin-orbital matrix of L_g, e.g. blockdiag(L_g, L_g) in some one-particle basis)"""
    out = {}
    ng = len(Lso)
    V = {}
    for n, a in state.items():
        for Q_ in range(nso):
            x = ann(Q_, n)
            if not x:
                continue
            for S in range(nso):
                y = ann(S, x[1])
                if not y:
                    continue
                for R in range(nso):
                    z = cre(R, y[1])
                    if not z:
                        continue
                    for P in range(nso):
                        w = cre(P, z[1])
                        if not w:
                            continue
                        key = (P, Q_, R, S)
                        if key not in V:
                            c = None
                            for g in range(ng):
                                l1, l2 = Lso[g][P][Q_], Lso[g][R][S]
                                if l1 is None or l2 is None or iszero(l1) or iszero(l2):
                                    continue
                                t = l1 * l2
                                c = t if c is None else c + t
                            V[key] = c
                        v = V[key]
                        if v is None or iszero(v):
                            continue
                        sign = x[0] * y[0] * z[0] * w[0]
                        _acc(out, w[1], v * a * Fraction(sign, 2))
    return out


def apply_H_so(nso, h0, hso, Lso, state):
    out = scale(state, h0)
    out = add_states(out, apply_onebody_so(hso, state, nso))
    if len(Lso):
        out = add_states(out, apply_twobody_so(nso, Lso, state))
    return out
