"""Runs the cases of one check in a process pool, aggregates, writes evidence, sets the exit code.

Exit codes: 0 all obligations discharged (known findings printed), 1 replayed violation not listed in
known_findings.txt, 2 inconclusive obligation(s), 3 engine error.
"""
import argparse
import concurrent.futures as cf
import importlib
import json
import multiprocessing as mp
import os
import sys
import time

VERIF = os.path.dirname(os.path.dirname(os.path.abspath(__file__)))
GUARD = "ANKIT76_AD_AFQMC_VERIF"


def setup_env():
    os.environ.setdefault(GUARD, "1")
    os.environ.setdefault("JAX_PLATFORMS", "cpu")
    os.environ.setdefault("XLA_FLAGS", "--xla_force_host_platform_device_count=1 --xla_cpu_multi_thread_eigen=false intra_op_parallelism_threads=1")
    os.environ.setdefault("OMP_NUM_THREADS", "1")
    os.environ.setdefault("OPENBLAS_NUM_THREADS", "1")
    for p in (os.environ.get("VERIF_REPO", "/repo"), VERIF):  # VERIF_REPO: development only (a scratch copy while /repo is busy)
        if p not in sys.path:
            sys.path.insert(0, p)
    deps = os.path.join(VERIF, ".deps")
    if deps not in sys.path:
        sys.path.append(deps)  # after /venv's site-packages: only z3 / jsonschema are taken from here


def _init(limit_gb=None):
    setup_env()
    if limit_gb:
        import resource

        lim = int(limit_gb * (1 << 30))
        try:
            resource.setrlimit(resource.RLIMIT_AS, (lim, lim))
        except Exception:
            pass
    import warnings

    warnings.filterwarnings("ignore")
    from ad_afqmc import config

    config.setup_jax()


def _work(args):
    check_id, case_args, seed = args
    _init(limit_gb=float(os.environ.get("VERIF_MEM_GB", "12")))
    mod = importlib.import_module(f"checks.{check_id.lower()}")
    known = load_known(check_id)
    t0 = time.time()
    try:
        res = mod.run(case_args, seed, known)
    except Exception as ex:
        import traceback

        res = {"case": str(case_args), "obligations": [], "violations": [], "inconclusive": [],
               "errors": [f"{type(ex).__name__}: {ex}\n{traceback.format_exc()[-2000:]}"], "known": []}
    res.setdefault("wall_s", round(time.time() - t0, 3))
    res["case_args"] = case_args
    return res


def preflight(seed):
    """start-up self-validation of the trusted front-end pieces (DESIGN 3/4): stub JVP rules vs JAX's own,
    polynomial normal form vs z3, Fock oracle vs dense second quantisation"""
    try:
        from . import stubs, poly, fock

        err = stubs.validate(seed)
        if not err < 1e-10:
            return f"linear-algebra stub rules disagree with JAX ({err:.2e})"
        poly.self_test(seed)
        fock.self_test()
    except Exception as ex:
        return f"{type(ex).__name__}: {ex}"
    return None


def _work_q(args, idx, q):
    try:
        q.put((idx, _work(args)))
    except BaseException as ex:  # noqa: a dying worker must still report
        q.put((idx, {"case": str(args[1]), "obligations": [], "violations": [], "inconclusive": [], "known": [],
                     "errors": [f"worker failed: {type(ex).__name__}: {ex}"], "case_args": args[1]}))


def run_pool(work, jobs, case_timeout):
    """one process per case (robust against a worker that is killed by the memory limit or crashes inside the solver):
    a case whose process dies or exceeds the time limit is reported as inconclusive, never as success"""
    ctx = mp.get_context("spawn")
    q = ctx.Queue()
    pending = list(enumerate(work))
    running = {}
    results = {}
    while pending or running:
        while pending and len(running) < jobs:
            idx, w = pending.pop(0)
            p = ctx.Process(target=_work_q, args=(w, idx, q), daemon=True)
            p.start()
            running[idx] = (p, time.time(), w)
        try:
            idx, res = q.get(timeout=1.0)
            results[idx] = res
        except Exception:
            pass
        for idx in list(running):
            p, t0, w = running[idx]
            if idx in results:
                p.join(timeout=5)
                del running[idx]
            elif not p.is_alive():
                # drain a result that may have arrived just now
                try:
                    while True:
                        i2, r2 = q.get_nowait()
                        results[i2] = r2
                except Exception:
                    pass
                if idx not in results:
                    results[idx] = {"case": json.dumps(w[1]), "obligations": [], "violations": [], "known": [], "errors": [],
                                    "inconclusive": [f"worker process died (exit code {p.exitcode}): memory / solver budget exceeded"],
                                    "case_args": w[1]}
                del running[idx]
            elif time.time() - t0 > case_timeout:
                p.terminate()
                results[idx] = {"case": json.dumps(w[1]), "obligations": [], "violations": [], "known": [], "errors": [],
                                "inconclusive": [f"case exceeded the time budget of {case_timeout:.0f} s"], "case_args": w[1]}
                del running[idx]
    return [results[i] for i in range(len(work))]


def load_known(check_id):
    """keys of open findings for this property from known_findings.txt"""
    known = {}
    path = os.path.join(VERIF, "known_findings.txt")
    if not os.path.exists(path):
        return known
    for line in open(path):
        line = line.strip()
        if not line.startswith("finding:"):
            continue
        parts = line.split()
        prop = [p for p in parts if p.startswith("property=")]
        key = [p for p in parts if p.startswith("key=")]
        if prop and key and prop[0] == f"property={check_id}":
            known[key[0][4:]] = line
    return known


def main(argv=None):
    setup_env()
    ap = argparse.ArgumentParser()
    ap.add_argument("check", nargs="?")
    ap.add_argument("--tier", default=os.environ.get("VERIF_TIER", "quick"), choices=["quick", "thorough"])
    ap.add_argument("--replay")
    ap.add_argument("--jobs", type=int, default=int(os.environ.get("VERIF_JOBS", "0")) or min(16, os.cpu_count() or 1))
    ap.add_argument("--only", help="substring filter on case names (debugging)")
    ap.add_argument("--serial", action="store_true")
    a = ap.parse_args(argv)
    seed = int(os.environ.get("VERIF_SEED", "0"))
    if a.replay:
        data = json.load(open(a.replay))
        _init()
        mod = importlib.import_module(f"checks.{data['check'].lower()}")
        out = mod.replay(data)
        print(json.dumps(out, indent=1, default=str))
        return 1 if out.get("violates") else 0
    check_id = a.check.upper()
    _init()
    pf = preflight(seed)
    if pf:
        print(f"ENGINE-ERROR property={check_id} preflight: {pf}")
        return 3
    mod = importlib.import_module(f"checks.{check_id.lower()}")
    t0 = time.time()
    cases = mod.cases(a.tier)
    if a.only:
        cases = [c for c in cases if a.only in json.dumps(c)]
    work = [(check_id, c, seed) for c in cases]
    if not work:
        print("no cases selected"); return 3
    results = []
    if a.serial or a.jobs == 1 or len(work) == 1:
        for w in work:
            results.append(_work(w))
    else:
        results = run_pool(work, min(a.jobs, len(work)), float(os.environ.get("VERIF_CASE_TIMEOUT", "5400" if a.tier == "quick" else "14400")))
    wall = time.time() - t0
    return finish(check_id, a.tier, seed, mod, results, wall)


def finish(check_id, tier, seed, mod, results, wall):
    nob = sum(len(r["obligations"]) for r in results)
    ndis = sum(1 for r in results for o in r["obligations"] if o["status"] == "unsat")
    viol = [(r["case"], v) for r in results for v in r["violations"]]
    known = [(r["case"], v) for r in results for v in r.get("known", [])]
    inconc = [(r["case"], l) for r in results for l in r["inconclusive"]]
    errors = [(r["case"], e) for r in results for e in r["errors"]]
    solver_s = sum(o.get("seconds", 0) for r in results for o in r["obligations"])
    for case, v in known:
        print(f"KNOWN-FINDING: property={check_id} {v['key']} {v['detail']}")
    for case, v in viol:
        print(f"VIOLATION property={check_id} replay={v['replay']}")
        print(f"  case={case} obligation={v['label']} {v['detail']}")
    for case, l in inconc:
        print(f"INCONCLUSIVE property={check_id} case={case} obligation={l}")
    for case, e in errors:
        print(f"ENGINE-ERROR property={check_id} case={case}: {e}")
    meta = mod.META
    samples = []
    for r in results:
        for s in r.get("samples", [])[:1]:
            if len(samples) < 4:
                samples.append({"case": r["case"], **s})
    if not samples:
        samples = [{"case": r["case"], "obligations": [o["label"] for o in r["obligations"][:5]]} for r in results[:3]]
    functions = sorted({f for r in results for f in r.get("functions", [])})
    cov = {
        "obligations": nob,
        "discharged": ndis,
        # model-checking keys: a "state" is one symbolic execution of the real code (one traced program at one bounded shape, or one
        # explored path of plain Python code) standing for all inputs that follow it; a "transition" is one interpreted IR equation /
        # explored branch decision; "traces validated" are the concrete executions of the REAL code that were compared with the
        # interpreter's result (translator validation) in this run
        "states": sum(max(1, int((r.get("paths") or {}).get("explored", 1)) if isinstance(r.get("paths"), dict) else max(1, int(r.get("paths") or 1))) for r in results),
        "transitions": sum(int((r.get("traced") or {}).get("equations", 0) or 0) or len(r["obligations"]) for r in results),
        "traces_validated_against_impl": sum(int((r.get("validation") or {}).get("instances", 0) or 0) for r in results),
        "evaluations": nob,
        "distinct_nontrivial": sum(1 for r in results for o in r["obligations"] if o.get("nontrivial", True)) if nob else 0,
        "rule": "one evaluation = one obligation (pre AND NOT post) built from the traced / path-explored real code at one bounded shape; "
                "non-trivial = at least one side of the obligation depends on the symbolic inputs (for identities: its normal form is not a "
                "constant; path, IEEE and lemma obligations always do); all are distinct (case x output label). An obligation whose two "
                "sides have identical normal forms is closed without a solver call and still counted: deciding it IS the normal form.",
        "checker_cmd": f"./check {check_id} --tier {tier}",
        "trusted_base": meta.get("trusted", []),
        "samples": samples,
        "functions_encoded": functions or meta.get("functions", []),
        "bounds": meta.get("bounds", {}).get(tier, meta.get("bounds", "")),
        "outside_bounds": meta.get("outside", ""),
        "cases": [{"case": r["case"], "obligations": len(r["obligations"]),
                   "discharged": sum(1 for o in r["obligations"] if o["status"] == "unsat"),
                   "solver_s": round(sum(o.get("seconds", 0) for o in r["obligations"]), 3),
                   "wall_s": r.get("wall_s"), "traced": {k: v for k, v in r.get("traced", {}).items() if k != "primitives"},
                   "validation": r.get("validation"), "paths": r.get("paths"), "note": r.get("symbolic_note", ""),
                   "atoms": r.get("atoms"), "reachability_twins": r.get("twins")} for r in results],
        "reachability_twins_sat": sum((r.get("twins") or {}).get("sat", 0) for r in results),
        "solver": "z3 " + _z3v(),
        "solver_seconds": round(solver_s, 3),
        "queries_discharged": ndis,
        "inconclusive": len(inconc),
        "engine_errors": len(errors),
        "known_findings": [v["key"] for _, v in known],
        "exhaustive": False,
    }
    ev = {"property_id": check_id, "tier": tier, "seed": seed, "level": meta.get("level", "model_checking"),
          "coverage": cov, "assumptions": meta.get("assumptions", []), "wall_s": round(wall, 2),
          "violations": len(viol)}
    evdir = os.environ.get("VERIF_EVIDENCE_DIR") or os.path.join(VERIF, "evidence")  # tools/seedrun.sh points this at a scratch directory
    os.makedirs(evdir, exist_ok=True)
    with open(os.path.join(evdir, f"{check_id}.json"), "w") as fh:
        json.dump(ev, fh, indent=1, default=str)
    print(f"{check_id} {tier}: cases={len(results)} obligations={nob} discharged={ndis} violations={len(viol)} "
          f"known={len(known)} inconclusive={len(inconc)} errors={len(errors)} solver_s={solver_s:.1f} wall_s={wall:.1f}")
    if viol:
        return 1
    if errors:
        return 3
    if inconc or nob == 0:
        return 2
    return 0


def _z3v():
    try:
        import z3

        return z3.get_version_string()
    except Exception:
        return "?"


if __name__ == "__main__":
    sys.exit(main())
