"""Engine for IEEE-754 (F domain) cases: invariants of the real float data path under havoc.

An `FCase` provides
  trace()                 -> (closed_jaxpr, example_args)  the real function traced at a tiny shape
  sym_inputs(fi)          -> (list of object arrays for the jaxpr inputs, list of z3 preconditions)
  obligations(fi, outs)   -> list of (label, z3 Bool) that must hold for ALL values of inputs and havocked intermediates
  hostile()               -> iterable of (tag, concrete args)  hostile concrete inputs for the real function
  concrete(args)          -> runs the REAL function on concrete args, returns dict label -> bool (same properties)
  pins(args)              -> (dict z3 FP var -> python float, dict label/outs...) for translator validation (optional)
Decision: unsat(pre AND contracts AND NOT post) = holds for every double.  A `sat` is a candidate only: it is reported as a
VIOLATION iff some hostile concrete input makes the real function break the same property; otherwise inconclusive.
"""
import json
import os
import time
import traceback

import numpy as np
import z3

from . import fdom
from .engine import VERIF


class FCase:
    name = "fcase"
    timeout_s = 120
    havoc_calls = ()
    symbolic_note = ""

    def functions(self):
        return []


def run_fcase(case, seed=0, replay_dir=None, known=None):
    t_start = time.time()
    res = {"case": case.name, "obligations": [], "violations": [], "inconclusive": [], "errors": [], "traced": {},
           "validation": {}, "samples": [], "functions": case.functions(), "symbolic_note": case.symbolic_note, "known": []}
    try:
        from . import jx
        closed, ex_args = case.trace()
        hist = jx.prim_histogram(closed.jaxpr)
        res["traced"] = {"equations": int(sum(hist.values())), "primitives": hist}
        fi = fdom.FInterp(havoc_calls=case.havoc_calls)
        case.fi = fi
        ins, pre = case.sym_inputs(fi)
        t0 = time.time()
        outs = fi.run(closed, ins)
        res["traced"]["interp_s"] = round(time.time() - t0, 3)
        res["traced"]["modelled_primitives"] = dict(fi.modelled)
        res["traced"]["havocked"] = dict(fi.havoc_log)
        obs = case.obligations(fi, outs)
        base = list(pre) + list(fi.constraints)
        if fi.uf_apps:
            lem = fdom.verify_lemmas(parallel=int(os.environ.get("VERIF_F_WORKERS", "6")) if getattr(case, "z3_first_ms", 8000) == 0 else 0)
            res["traced"]["uf_applications"] = dict(fi.uf_apps)
            res["traced"]["lemmas"] = {k: v for k, v in lem.items()}
            bad = [k for k, v in lem.items() if v[0] != "unsat"]
            for k, (r_, t_) in lem.items():
                res["obligations"].append({"label": f"lemma:{k}", "status": r_, "seconds": t_, "how": "QF_FP exact fpMul/fpDiv"})
            if bad:
                res["errors"].append(f"multiplication/division lemmas not discharged: {bad}")
        # reachability twin: the precondition and contracts are satisfiable
        pre_text = None
        if getattr(case, "z3_first_ms", 8000) == 0 and fdom.have_cvc5():
            pre_text = fdom.smt2_text(base)  # decided together with the obligations below (same pool, same budget)
        else:
            r, m = fdom.check(base, 60000)
            res["twins"] = {"precondition_sat": r}
            if r != "sat":
                res["errors"].append(f"vacuity guard: precondition/contracts not satisfiable ({r})")
        # translator validation on the hostile library (where the case can pin the havocked values)
        nval = 0
        worst = 0
        hostile = list(case.hostile())
        if hasattr(case, "validate"):
            fx = fdom.FInterp(havoc_calls=case.havoc_calls)
            fx.exact = True  # validation evaluates the exact IEEE operations (no uninterpreted products)
            keep = case.fi
            case.fi = fx
            insx, _ = case.sym_inputs(fx)
            outsx = fx.run(closed, insx)
            for tag, args in hostile[: getattr(case, "n_validate", 4)]:
                ok, msg = case.validate(fx, insx, outsx, args)
                nval += 1
                if not ok:
                    res["errors"].append(f"translator validation failed on hostile input '{tag}': {msg}")
        if hasattr(case, "validate"):
            case.fi = keep
            case.sym_inputs(keep)
        res["validation"] = {"instances": nval, "kind": "F-term of the outputs with havocked values pinned to the real run == real output, bitwise"}
        queries = []
        for entry in obs:
            label, post = entry[0], entry[1]
            assume = base if len(entry) < 3 else list(entry[2])
            assume = _cone(assume, post, fi.targets)  # backward slice of the contracts / lemma instances from the post-condition
            queries.append(assume + [z3.Not(post)])
        # all obligations of the case are decided concurrently (the cvc5 leg runs as sub-processes)
        import concurrent.futures as _cf
        z3_first = getattr(case, "z3_first_ms", 8000)

        def _one(q):
            t0_ = time.time()
            r_, m_ = fdom.check(q, int(case.timeout_s * 1000), z3_first_ms=z3_first)
            return r_, m_, time.time() - t0_
        if z3_first == 0 and len(queries) > 1 and fdom.have_cvc5():
            texts = [fdom.smt2_text(q) for q in queries]  # z3 objects are touched by this thread only

            def _cv(txt):
                t0_ = time.time()
                return fdom.run_cvc5(txt, int(case.timeout_s * 1000)), None, time.time() - t0_
            with _cf.ThreadPoolExecutor(max_workers=int(os.environ.get("VERIF_F_WORKERS", "6"))) as pool:
                answers = list(pool.map(_cv, texts + ([pre_text] if pre_text is not None else [])))
            if pre_text is not None:
                r_pre = answers.pop()[0]
                res["twins"] = {"precondition_sat": r_pre}
                if r_pre != "sat":
                    res["errors"].append(f"vacuity guard: precondition/contracts not satisfiable ({r_pre})")
                pre_text = None
        else:
            answers = [_one(q) for q in queries]
        if pre_text is not None:
            r_pre = fdom.run_cvc5(pre_text, int(case.timeout_s * 1000))
            res["twins"] = {"precondition_sat": r_pre}
            if r_pre != "sat":
                res["errors"].append(f"vacuity guard: precondition/contracts not satisfiable ({r_pre})")
        for entry, assume_q, (r, m, secs) in zip(obs, queries, answers):
            label, post = entry[0], entry[1]
            assume = assume_q[:-1]
            ob = {"label": label}
            ob.update(status=r, seconds=round(secs, 3), how="QF_FP" if m is not None or z3_first else "QF_UFFP (cvc5)")
            if len(res["samples"]) < 2:
                s = z3.Solver()
                s.add(*(assume + [z3.Not(post)]))
                txt = s.to_smt2()
                res["samples"].append({"label": label, "smt2_head": txt[:1500], "smt2_bytes": len(txt)})
            if r == "sat":
                witness = case.describe_model(m) if (hasattr(case, "describe_model") and m is not None) else ("(sat from cvc5: no model imported)" if m is None else "")
                hits = []
                for tag, args in hostile:
                    try:
                        verdicts = case.concrete(args)
                    except Exception as ex:
                        verdicts = {"__error__": str(ex)}
                    if verdicts.get(label) is False:
                        hits.append((tag, args, verdicts))
                # a finding is identified by the obligation AND the hostile input that realises it: a different input breaking the
                # same obligation is still reported
                new = [h for h in hits if not (known and f"{case.name}:{label}:{h[0]}" in known)]
                old = [h for h in hits if known and f"{case.name}:{label}:{h[0]}" in known]
                for h in old:
                    res["known"].append({"label": label, "key": f"{case.name}:{label}:{h[0]}", "replay": _write_replay(case, label, h, witness, replay_dir),
                                         "detail": f"real code breaks '{label}' on hostile input '{h[0]}'"})
                if new:
                    hit = new[0]
                    key = f"{case.name}:{label}:{hit[0]}"
                    path = _write_replay(case, label, hit, witness, replay_dir)
                    res["violations"].append({"label": label, "key": key, "replay": path,
                                              "detail": f"real code breaks '{label}' on hostile input '{hit[0]}'; solver witness: {witness}"})
                    ob["status"] = "violated"
                elif old:
                    ob["status"] = "known-finding"
                else:
                    ob["status"] = "candidate (not realised by the hostile-input library)"
                    ob["witness"] = witness
                    res["inconclusive"].append(f"{label}: solver candidate {witness} not realised on the real code")
            elif r != "unsat":
                res["inconclusive"].append(label)
            res["obligations"].append(ob)
    except Exception as ex:
        res["errors"].append(f"{type(ex).__name__}: {ex}\n{traceback.format_exc()[-1800:]}")
    res["wall_s"] = round(time.time() - t_start, 3)
    return res


def _consts(e, cache):
    k = e.get_id()
    if k in cache:
        return cache[k]
    out = set()
    stack = [e]
    seen = set()
    while stack:
        t = stack.pop()
        i = t.get_id()
        if i in seen:
            continue
        seen.add(i)
        if z3.is_const(t) and t.decl().kind() == z3.Z3_OP_UNINTERPRETED:
            out.add(i)
        else:
            stack.extend(t.children())
    cache[k] = out
    return out


def _subterms(e, acc):
    stack = [e]
    while stack:
        t = stack.pop()
        i = t.get_id()
        if i in acc:
            continue
        acc.add(i)
        stack.extend(t.children())


def _cone(assume, post, targets=None):
    """backward slice: every contract / lemma instance is ABOUT one term (a havocked value or an uninterpreted application, see
    FInterp.targets); it is kept only if that term occurs in the post-condition or in a constraint already kept.  Constraints without a
    recorded target (the precondition) are always kept.  Sound: dropping assumptions can only make `unsat` harder to obtain."""
    targets = targets or {}
    rel = set()
    _subterms(post, rel)
    keep = [False] * len(assume)
    for k, a in enumerate(assume):
        if a.get_id() not in targets:
            keep[k] = True
            _subterms(a, rel)
    changed = True
    while changed:
        changed = False
        for k, a in enumerate(assume):
            if keep[k]:
                continue
            if targets[a.get_id()].get_id() in rel:
                keep[k] = True
                _subterms(a, rel)
                changed = True
    return [a for k, a in enumerate(assume) if keep[k]]


def _write_replay(case, label, hit, witness, replay_dir):
    replay_dir = replay_dir or os.path.join(VERIF, "replays")
    os.makedirs(replay_dir, exist_ok=True)
    safe = "".join(ch if ch.isalnum() or ch in "-_." else "_" for ch in f"{case.name}__{label}")
    path = os.path.join(replay_dir, safe + ".json")
    data = {"check": getattr(case, "check_id", "?"), "case": case.name, "case_args": getattr(case, "args", None), "domain": "F",
            "label": label, "hostile_input": hit[0], "verdicts": {k: bool(v) if isinstance(v, (bool, np.bool_)) else str(v) for k, v in hit[2].items()},
            "solver_witness": witness}
    with open(path, "w") as fh:
        json.dump(data, fh, indent=1, default=str)
    return path


def replay_file_f(case, data):
    for tag, args in case.hostile():
        if tag == data["hostile_input"]:
            v = case.concrete(args)
            return {"violates": v.get(data["label"]) is False, "verdicts": {k: str(x) for k, x in v.items()}, "hostile_input": tag}
    return {"violates": False, "summary": "hostile input not found"}
