"""PX: running the real plain-Python / NumPy code on symbolic scalars (DESIGN 2.2).

`SI` is a symbolic integer (z3 Int), `SR` a symbolic real (z3 Real).  Comparisons give explore.SB; whenever Python
needs a truth value the active Explorer splits the path.  NumPy object arrays of these call back into Python for every
arithmetic / comparison, so np.cumsum, np.abs, np.searchsorted, np.median, np.argmax, boolean masks ... run unmodified.
"""
from fractions import Fraction

import numpy as np
import z3

from .explore import SB, tb


def zi(x):
    if isinstance(x, SI):
        return x.e
    if isinstance(x, (bool, np.bool_)):
        return z3.IntVal(int(x))
    if isinstance(x, (int, np.integer)):
        return z3.IntVal(int(x))
    if z3.is_expr(x):
        return x
    raise TypeError(f"not an integer: {type(x)}")


class SI:
    """symbolic integer"""
    __slots__ = ("e",)

    def __init__(self, e):
        self.e = z3.Int(e) if isinstance(e, str) else e

    def _b(self, other, f):
        if isinstance(other, SR) or isinstance(other, float):
            return NotImplemented
        return SI(f(self.e, zi(other)))

    def __add__(a, b):
        if isinstance(b, np.ndarray):
            return NotImplemented
        return a._b(b, lambda x, y: x + y)

    __radd__ = __add__

    def __sub__(a, b):
        if isinstance(b, np.ndarray):
            return NotImplemented
        return a._b(b, lambda x, y: x - y)

    def __rsub__(a, b):
        if isinstance(b, np.ndarray):
            return NotImplemented
        return SI(zi(b) - a.e)

    def __mul__(a, b):
        if isinstance(b, np.ndarray):
            return NotImplemented
        return a._b(b, lambda x, y: x * y)

    __rmul__ = __mul__

    def __mod__(a, b):
        if isinstance(b, np.ndarray):
            return NotImplemented
        # Python % with a positive modulus = z3 mod (non-negative remainder); modulus must be a positive constant
        if not isinstance(b, (int, np.integer)) or b <= 0:
            raise NotImplementedError("symbolic % needs a positive constant modulus")
        return SI(a.e % int(b))

    def __floordiv__(a, b):
        if isinstance(b, np.ndarray):
            return NotImplemented
        if not isinstance(b, (int, np.integer)) or b <= 0:
            raise NotImplementedError("symbolic // needs a positive constant divisor")
        return SI(a.e / int(b))  # z3 Int division rounds so that the remainder is non-negative = Python floor for b>0

    def __neg__(a):
        return SI(-a.e)

    def __lt__(a, b):
        if isinstance(b, np.ndarray):
            return NotImplemented
        return SB(a.e < zi(b))

    def __le__(a, b):
        if isinstance(b, np.ndarray):
            return NotImplemented
        return SB(a.e <= zi(b))

    def __gt__(a, b):
        if isinstance(b, np.ndarray):
            return NotImplemented
        return SB(a.e > zi(b))

    def __ge__(a, b):
        if isinstance(b, np.ndarray):
            return NotImplemented
        return SB(a.e >= zi(b))

    def __eq__(a, b):
        if isinstance(b, np.ndarray):
            return NotImplemented
        try:
            return SB(a.e == zi(b))
        except TypeError:
            return False

    def __ne__(a, b):
        if isinstance(b, np.ndarray):
            return NotImplemented
        try:
            return SB(a.e != zi(b))
        except TypeError:
            return True

    def __hash__(self):
        return hash(("SI", self.e.get_id()))

    def __index__(self):
        raise TypeError("symbolic integer used as a concrete index")

    def __repr__(self):
        return f"SI({self.e})"


def zr(x):
    if isinstance(x, SR):
        return x.e
    if isinstance(x, SI):
        return z3.ToReal(x.e)
    if isinstance(x, (bool, np.bool_)):
        return z3.RealVal(int(x))
    if isinstance(x, (int, np.integer)):
        return z3.RealVal(int(x))
    if isinstance(x, Fraction):
        return z3.RealVal(str(x.numerator)) / z3.RealVal(str(x.denominator)) if x.denominator != 1 else z3.RealVal(str(x.numerator))
    if isinstance(x, (float, np.floating)):
        f = Fraction(float(x))
        return zr(f)
    if isinstance(x, complex) and x.imag == 0:
        return zr(x.real)  # `orbitals + 0.0j` in get_init_walkers: a cast, not arithmetic
    if z3.is_expr(x):
        return z3.ToReal(x) if z3.is_int(x) else x
    raise TypeError(f"not a real: {type(x)}")


class SR:
    """symbolic real (exact arithmetic, A1).  A value produced by sqrt() additionally carries rad = (c, X) meaning
    c * sqrt(X) with a constant c >= 0, so that comparisons between such values are decided on their squares
    (pure polynomial arithmetic, no radicals in the query)."""
    __slots__ = ("e", "rad")

    def __init__(self, e, rad=None):
        self.e = z3.Real(e) if isinstance(e, str) else e
        self.rad = rad

    def __add__(a, b):
        if isinstance(b, np.ndarray):
            return NotImplemented
        return SR(a.e + zr(b))

    __radd__ = __add__

    def __sub__(a, b):
        if isinstance(b, np.ndarray):
            return NotImplemented
        return SR(a.e - zr(b))

    def __rsub__(a, b):
        if isinstance(b, np.ndarray):
            return NotImplemented
        return SR(zr(b) - a.e)

    def __mul__(a, b):
        if isinstance(b, np.ndarray):
            return NotImplemented
        if a.rad is not None and isinstance(b, (int, float, Fraction, np.floating, np.integer)) and b >= 0:
            c = Fraction(float(b)) if not isinstance(b, Fraction) else b
            return SR(a.e * zr(b), rad=(a.rad[0] * c, a.rad[1]))
        return SR(a.e * zr(b))

    __rmul__ = __mul__

    def __truediv__(a, b):
        if isinstance(b, np.ndarray):
            return NotImplemented
        return SR(a.e / zr(b))

    def __rtruediv__(a, b):
        if isinstance(b, np.ndarray):
            return NotImplemented
        return SR(zr(b) / a.e)

    def __neg__(a):
        return SR(-a.e)

    def __pos__(a):
        return a

    def __abs__(a):
        return SR(z3.If(a.e >= 0, a.e, -a.e))

    def __pow__(a, n):
        if isinstance(n, (int, np.integer)) and n >= 0:
            r = SR(z3.RealVal(1))
            for _ in range(int(n)):
                r = r * a
            return r
        if n == 0.5:
            return a.sqrt()
        raise NotImplementedError(f"SR ** {n}")

    def sqrt(a):
        v = z3.simplify(a.e)
        key = v.get_id()
        if key not in _SQRT:
            s = z3.Real(f"@sqrt#{len(_SQRT)}")
            _SQRT[key] = (s, [s >= 0, s * s == a.e])
        return SR(_SQRT[key][0], rad=(Fraction(1), a.e))

    def _radcmp(a, b, op):
        """comparison of c1*sqrt(X1) with c2*sqrt(X2) or with a constant, on squares"""
        if a.rad is None:
            return None
        c1, X1 = a.rad
        if isinstance(b, SR) and b.rad is not None:
            c2, X2 = b.rad
            l, r = zr(c1 * c1) * X1, zr(c2 * c2) * X2
        elif isinstance(b, (int, float, Fraction, np.floating, np.integer)):
            k = Fraction(float(b)) if not isinstance(b, Fraction) else b
            if k < 0 or (k == 0 and op in ("lt",)):
                return {"lt": False, "le": False, "gt": True, "ge": True}[op] if k < 0 else False
            if k == 0:
                l, r = zr(c1 * c1) * X1, z3.RealVal(0)
            else:
                l, r = zr(c1 * c1) * X1, zr(k * k)
        else:
            return None
        return SB({"lt": l < r, "le": l <= r, "gt": l > r, "ge": l >= r}[op])

    def __lt__(a, b):
        if isinstance(b, np.ndarray):
            return NotImplemented
        r = a._radcmp(b, "lt")
        if r is not None:
            return r
        if isinstance(b, SR) and b.rad is not None:
            r = b._radcmp(a, {"lt": "gt", "le": "ge", "gt": "lt", "ge": "le"}["lt"])
            if r is not None:
                return r
        return SB(a.e < zr(b))

    def __le__(a, b):
        if isinstance(b, np.ndarray):
            return NotImplemented
        r = a._radcmp(b, "le")
        if r is not None:
            return r
        if isinstance(b, SR) and b.rad is not None:
            r = b._radcmp(a, {"lt": "gt", "le": "ge", "gt": "lt", "ge": "le"}["le"])
            if r is not None:
                return r
        return SB(a.e <= zr(b))

    def __gt__(a, b):
        if isinstance(b, np.ndarray):
            return NotImplemented
        r = a._radcmp(b, "gt")
        if r is not None:
            return r
        if isinstance(b, SR) and b.rad is not None:
            r = b._radcmp(a, {"lt": "gt", "le": "ge", "gt": "lt", "ge": "le"}["gt"])
            if r is not None:
                return r
        return SB(a.e > zr(b))

    def __ge__(a, b):
        if isinstance(b, np.ndarray):
            return NotImplemented
        r = a._radcmp(b, "ge")
        if r is not None:
            return r
        if isinstance(b, SR) and b.rad is not None:
            r = b._radcmp(a, {"lt": "gt", "le": "ge", "gt": "lt", "ge": "le"}["ge"])
            if r is not None:
                return r
        return SB(a.e >= zr(b))

    def __eq__(a, b):
        if isinstance(b, np.ndarray):
            return NotImplemented
        try:
            return SB(a.e == zr(b))
        except TypeError:
            return False

    def __ne__(a, b):
        if isinstance(b, np.ndarray):
            return NotImplemented
        try:
            return SB(a.e != zr(b))
        except TypeError:
            return True

    def __hash__(self):
        return hash(("SR", self.e.get_id()))

    def __float__(self):
        raise TypeError("symbolic real used as a concrete float")

    @property
    def real(self):
        return self

    def conjugate(self):
        return self

    def __repr__(self):
        return f"SR({self.e})"


_SQRT = {}


def sqrt_facts():
    out = []
    for s, facts in _SQRT.values():
        out.extend(facts)
    return out


def reset():
    _SQRT.clear()


def sym_array(prefix, shape, cls=SR):
    a = np.empty(shape, dtype=object)
    for idx in np.ndindex(tuple(shape)):
        a[idx] = cls(prefix + "_" + "_".join(map(str, idx)))
    return a


class ContainerNP:
    """stand-in for `jnp` inside a module under PX: jnp.array(...) is only a container there"""

    @staticmethod
    def array(x, *a, **k):
        return x

    def __getattr__(self, name):
        return getattr(np, name)


class SC:
    """symbolic complex number with SR / constant parts (for code that takes .real of complex data)"""
    __slots__ = ("re", "im")

    def __init__(self, re, im=0):
        self.re = re if isinstance(re, SR) else SR(zr(re))
        self.im = im if isinstance(im, SR) else SR(zr(im))

    @staticmethod
    def lift(x):
        if isinstance(x, SC):
            return x
        if isinstance(x, complex):
            return SC(SR(zr(x.real)), SR(zr(x.imag)))
        return SC(x if isinstance(x, SR) else SR(zr(x)), SR(z3.RealVal(0)))

    def __add__(a, b):
        if isinstance(b, np.ndarray):
            return NotImplemented
        b = SC.lift(b)
        return SC(a.re + b.re, a.im + b.im)

    __radd__ = __add__

    def __sub__(a, b):
        if isinstance(b, np.ndarray):
            return NotImplemented
        b = SC.lift(b)
        return SC(a.re - b.re, a.im - b.im)

    def __rsub__(a, b):
        if isinstance(b, np.ndarray):
            return NotImplemented
        return SC.lift(b) - a

    def __mul__(a, b):
        if isinstance(b, np.ndarray):
            return NotImplemented
        b = SC.lift(b)
        return SC(a.re * b.re - a.im * b.im, a.re * b.im + a.im * b.re)

    __rmul__ = __mul__

    def __truediv__(a, b):
        if isinstance(b, np.ndarray):
            return NotImplemented
        b = SC.lift(b)
        d = b.re * b.re + b.im * b.im
        return SC((a.re * b.re + a.im * b.im) / d, (a.im * b.re - a.re * b.im) / d)

    def __rtruediv__(a, b):
        if isinstance(b, np.ndarray):
            return NotImplemented
        return SC.lift(b) / a

    def __neg__(a):
        return SC(-a.re, -a.im)

    @property
    def real(self):
        return self.re

    @property
    def imag(self):
        return self.im

    def conjugate(self):
        return SC(self.re, -self.im)

    def __hash__(self):
        return id(self)

    def __repr__(self):
        return f"SC({self.re},{self.im})"


class ObjNP:
    """stand-in for `np` inside a module under PX (DESIGN A4): allocation routines return object arrays so that symbolic
    scalars can be stored; everything else is the real NumPy"""

    def __init__(self):
        self._np = np

    def zeros(self, shape, dtype=None):
        a = np.empty(shape, dtype=object)
        a[...] = 0.0
        return a

    def ones(self, shape, dtype=None):
        a = np.empty(shape, dtype=object)
        a[...] = 1.0
        return a

    def savetxt(self, *a, **k):
        return None

    def sqrt(self, x):
        if hasattr(x, "sqrt") and not isinstance(x, np.ndarray):
            return x.sqrt()
        return np.sqrt(x)

    def copy(self, x):
        return np.array(x, dtype=object, copy=True) if isinstance(x, np.ndarray) and x.dtype == object else np.copy(x)

    def __getattr__(self, name):
        return getattr(np, name)
