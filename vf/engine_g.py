"""Engine for graded-domain cases (orders in a small variable s; exact Gaussian field averages).

A `GCase` provides
  inputs(V)            dict name -> object array.  Besides V.r / V.c it may use V.s(k) (the small variable to the
                       k-th power) and V.x(i) (auxiliary field i).  In symbolic mode these are gdom generators, in
                       concrete mode numbers.
  call(**arrays)       real repository code (traced; the small variable is a traced input)
  relations(inp, out)  list of (label, lhs, rhs) where lhs/rhs are G elements, or dicts {order k: Q} (after .gauss()),
                       compared coefficient by coefficient for the orders in `claim_orders`
  residual(inp_float, out_float) -> dict label -> complex   numeric lhs - rhs_truncated for the replay (real code at
                       a numeric step): a claimed order-K agreement must make it shrink like s^(K+1)
"""
import json
import math
import os
import time
import traceback
from fractions import Fraction

import numpy as np
import z3

from . import qdom, gdom, decide as dec
from .engine import (SymV, ConcV, example_like, to_float, to_py, _flatten_call, _num, _as_obj, VERIF)
from .gdom import G
from .poly import VARS as P_VARS, PolyBudget
from .qdom import Q


class GSymV(SymV):
    kind = "gsym"

    def s(self, k=1):
        return G.s(k)

    def x(self, i):
        return G.x(i)


class GConcV(ConcV):
    """concrete rationals for everything, incl. the small variable (s0) and the fields"""
    kind = "gconc"

    def __init__(self, seed=0, values=None, s0=Fraction(1, 8), series=False, **kw):
        super().__init__(seed=seed, values=values, **kw)
        self.s0 = Fraction(s0)
        self.series = series

    def s(self, k=1):
        if self.series:
            return G.s(k)
        return Q(self.s0 ** k)

    def x(self, i):
        v = self.values.get(f"@x{i}")
        if v is None:
            v = Fraction(self.rng.randint(-4, 4), self.rng.choice((2, 3)))
            self.values[f"@x{i}"] = v
        return G.lift(Q(v)) if self.series else Q(v)


class GCase:
    name = "gcase"
    order = 3          # truncation order in s
    nf = 0             # number of auxiliary fields
    claim_orders = (0, 1, 2, 3)
    timeout_s = 120
    stubs = dict(det=True, inv=True, expm=True, qr=False, eigh=False)
    n_validate = 1
    validate_s0 = Fraction(1, 16)
    holo = True
    symbolic_note = ""

    def inputs(self, V):
        raise NotImplementedError

    def call(self, **kw):
        raise NotImplementedError

    def relations(self, inp, out):
        raise NotImplementedError

    def functions(self):
        return []

    def pre(self, inp):
        return []


def _lift_all(a):
    a = np.asarray(a, dtype=object)
    out = np.empty(a.shape, dtype=object)
    for idx in np.ndindex(a.shape):
        v = a[idx]
        out[idx] = v if isinstance(v, (G, int, bool)) and not isinstance(v, Q) else (G.lift(v) if isinstance(v, Q) else v)
    return out


def _coeffs(v):
    if isinstance(v, G):
        return {k: c for k, c in v.t.items()}
    if isinstance(v, dict):
        return dict(v)
    q = Q.lift(v)
    return {} if q.iszero() else {0: q}


def _order_of(key):
    return key[0] if isinstance(key, tuple) else key


def run_gcase(case, seed=0, replay_dir=None, known=None):
    import jax
    import jax.numpy as jnp
    from . import jx, stubs

    t_start = time.time()
    res = {"case": case.name, "obligations": [], "violations": [], "inconclusive": [], "errors": [],
           "traced": {}, "validation": {}, "samples": [], "functions": case.functions(),
           "symbolic_note": case.symbolic_note, "known": []}
    try:
        gdom.configure(case.order, case.nf)
        qdom.reset()
        # complex-valued inputs
        probe = case.inputs(GSymV(holo=False))
        cnames = set()
        for k, a in probe.items():
            for x in np.asarray(a, dtype=object).reshape(-1):
                if isinstance(x, Q) and not qdom.rzero(x.c[1]):
                    cnames.add(k)
                    break
        qdom.reset()
        inp0 = case.inputs(GConcV(seed + 1000))
        names = list(inp0.keys())
        ex = example_like(inp0, cnames)
        f = _flatten_call(case, names)
        with stubs.installed(**case.stubs):
            closed, out_shape = jax.make_jaxpr(f, return_shape=True)(*[jnp.asarray(ex[k]) for k in names])
        treedef = jax.tree_util.tree_structure(out_shape)
        hist = jx.prim_histogram(closed.jaxpr)
        res["traced"] = {"equations": int(sum(hist.values())), "primitives": hist}

        def interp(inp):
            it = jx.Interp(wrap=G.lift)
            if hasattr(case, "prepare_interp"):
                case.prepare_interp(it, inp)
            outs = it.run(closed, [_lift_all(inp[k]) for k in names])
            return jax.tree_util.tree_unflatten(treedef, outs), it

        def real(inp):
            arrs = example_like(inp, cnames)
            out = f(*[jnp.asarray(arrs[k]) for k in names])
            return jax.tree_util.tree_map(lambda x: np.asarray(x), out)

        # ---- translator validation: series (symbolic s, everything else concrete) evaluated at s0 vs real execution at s0
        # The truncated series must approach the real execution like s^(order+1): the error at s0/2 must be at least
        # 2^(order+1)/3 times smaller than at s0 (or negligible).  This does not depend on the size of the coefficients.
        vord = getattr(case, "validate_order", case.order)
        worst = [0.0, 0.0]
        for k in range(case.n_validate):
            for attempt in range(6):
                qdom.reset()
                Vs = GConcV(seed + 17 * k + 1 + 1009 * attempt, s0=case.validate_s0, series=True, lo=-3, hi=3)
                inp = case.inputs(Vs)
                try:
                    o_int, _ = interp(inp)
                    break
                except jx.Unsupported as ex:  # a degenerate draw (exactly singular matrix / zero pivot): draw again
                    if attempt == 5 or not any(t in str(ex) for t in ("singular", "constant zero")):
                        raise
            li = jax.tree_util.tree_leaves(o_int, is_leaf=lambda x: isinstance(x, np.ndarray))
            for j, s0q in enumerate((case.validate_s0, case.validate_s0 / 2)):
                Vr = GConcV(values=Vs.values, s0=s0q, series=False)
                o_real = real(case.inputs(Vr))
                lr = jax.tree_util.tree_leaves(o_real)
                s0 = float(s0q)
                for a, b in zip(li, lr):
                    if any(v is jx.PROBED for v in np.asarray(a, dtype=object).reshape(-1)):
                        continue
                    fa = np.empty(a.shape, dtype=np.complex128)
                    for idx in np.ndindex(a.shape):
                        v = a[idx]
                        fa[idx] = v.eval(s0, []) if isinstance(v, G) else complex(_num(np.asarray(v, dtype=object))[()])
                    err = float(np.max(np.abs(fa - b) / (1.0 + np.abs(b)))) if b.size else 0.0
                    worst[j] = max(worst[j], err)
        need = 2.0 ** (vord + 1) / 3.0
        ok = worst[1] < 1e-9 or (worst[0] / max(worst[1], 1e-300) >= need and worst[1] < 0.2)  # the ratio is the criterion; the cap only rejects garbage
        res["validation"] = {"instances": case.n_validate, "err_at_s0": worst[0], "err_at_s0_half": worst[1], "required_ratio": need,
                             "note": "series truncated at s^%d vs real execution at s0=%s and s0/2" % (case.order, case.validate_s0)}
        if not ok:
            res["errors"].append(f"translator validation failed: series vs real execution: error {worst[0]:.3e} at s0, {worst[1]:.3e} at s0/2 "
                                 f"(needs ratio >= {need:.1f})")
            res["wall_s"] = time.time() - t_start
            return res

        # ---- symbolic run
        holo = case.holo
        while True:
            qdom.reset()
            V = GSymV(holo=holo)
            inp = case.inputs(V)
            t0 = time.time()
            try:
                out, it = interp(inp)
                res["traced"]["interp_s"] = round(time.time() - t0, 3)
                t0 = time.time()
                case.interp = it
                rels = case.relations(inp, out)
                res["traced"]["oracle_s"] = round(time.time() - t0, 3)
                break
            except qdom.NonHolomorphic as ex:
                if not holo:
                    raise
                holo = False
                res["traced"]["holomorphic_fallback"] = str(ex)
        pre = list(case.pre(inp)) + qdom.inverted_nonzero()
        allv = lambda: list(V.vars.values()) + [z3.Real(n) for n in P_VARS.names if n.startswith("@")]
        nontrivial = 0
        violated_labels = set()
        for label, lhs, rhs in rels:
            cl, cr = _coeffs(lhs), _coeffs(rhs)
            for key in sorted(set(cl) | set(cr), key=lambda k: (str(type(k)), k)):
                if _order_of(key) not in case.claim_orders:
                    continue
                a, b = cl.get(key, Q(0)), cr.get(key, Q(0))
                lab = f"{label}@{key}"
                ob = {"label": lab}
                if label in violated_labels:
                    ob.update(status="violated (same quantity already replayed)", seconds=0.0, how="skipped")
                    res["obligations"].append(ob)
                    continue
                dis, side = qdom.diff_terms(a, b)
                if not (Q.lift(a).iszero() and Q.lift(b).iszero()):
                    nontrivial += 1  # a compared coefficient that is not identically zero on both sides (vacuity guard)
                ob["nontrivial"] = not (Q.lift(a).isconst() and Q.lift(b).isconst())
                if not dis:
                    ob.update(status="unsat", seconds=0.0, how="identical normal forms")
                    res["obligations"].append(ob)
                    continue
                asserts = pre + side + [z3.Or(*dis)]
                r = dec.decide(asserts, timeout_ms=int(case.timeout_s * 1000), seed=seed, guided_first=True, variables=allv())
                ob.update(status=r.status, seconds=round(r.seconds, 3), how=r.how, nvars=r.nvars)
                if len(res["samples"]) < 2:
                    s_ = dec.to_smt2(asserts)
                    res["samples"].append({"label": lab, "smt2_head": s_[:1500], "smt2_bytes": len(s_)})
                if r.status == "sat":
                    vals = {n: dec.model_value(r.model, v) for n, v in V.vars.items()}
                    rep = replay_g(case, vals, label, _order_of(key), real)
                    ob["replay"] = rep["summary"]
                    if rep["violates"]:
                        violated_labels.add(label)
                        keyname = f"{case.name}:{label}"
                        path = _write_replay(case, vals, label, _order_of(key), rep, replay_dir)
                        v = {"label": lab, "key": keyname, "replay": path, "detail": rep["summary"]}
                        if known and keyname in known:
                            res["known"].append(v)
                            ob["status"] = "known-finding"
                        else:
                            res["violations"].append(v)
                            ob["status"] = "violated"
                    else:
                        ob["status"] = "spurious"
                        res["errors"].append(f"{lab}: solver model does not reproduce on the real code ({rep['summary']})")
                elif r.status == "unknown":
                    res["inconclusive"].append(lab)
                res["obligations"].append(ob)
        res["twins"] = {"nontrivial_coefficients": nontrivial}
        if rels and nontrivial == 0:
            res["errors"].append("vacuity guard: every compared coefficient is identically zero on both sides")
        res["atoms"] = dict(qdom.ATOMS.stats, count=len(qdom.ATOMS.vals), holomorphic_vars=len(qdom.HOLO))
    except (PolyBudget, MemoryError) as ex:
        res["inconclusive"].append(f"budget: {type(ex).__name__}: {ex}")
    except Exception as ex:
        res["errors"].append(f"{type(ex).__name__}: {ex}\n{traceback.format_exc()[-1800:]}")
    res["wall_s"] = round(time.time() - t_start, 3)
    return res


def replay_g(case, vals, label, order, real):
    """numeric replay on the real code: residual(s) = lhs_real(s) - rhs_oracle_truncated(s) must shrink like
    s^(K+1) (K = highest claimed order) when s is halved; a coefficient mismatch at order k <= K makes it shrink like s^k."""
    K = max(case.claim_orders)
    rs = []
    steps = list(getattr(case, "replay_steps", (Fraction(1, 64), Fraction(1, 128), Fraction(1, 256))))
    for s0 in steps:
        def rerun(xvals=None, s0=s0):
            vv = dict(vals)
            for i, xv in enumerate(xvals or []):
                vv[f"@x{i}"] = Fraction(xv).limit_denominator(10 ** 12) if not isinstance(xv, Fraction) else xv
            V = GConcV(values=vv, s0=s0, series=False)
            inp = case.inputs(V)
            return {k: to_py(v) for k, v in inp.items()}, real(inp)
        inp, out = rerun()
        r = case.residual(inp, out, float(s0), vals, rerun)
        rs.append(abs(complex(r.get(label, 0.0))))
    if not all(math.isfinite(x) for x in rs):
        return {"violates": False, "summary": f"non-finite residuals {rs}", "residuals": rs}
    # observed convergence order between the two finest steps
    if rs[2] < 1e-13 * max(1.0, rs[0]) or rs[1] == 0 or rs[2] == 0:
        obs = float("inf")
    else:
        obs = math.log2(rs[1] / rs[2])
    violates = obs < K + 0.6
    return {"violates": bool(violates), "residuals": rs, "observed_order": obs,
            "summary": f"real-code residual at s={steps[0]},{steps[1]},{steps[2]}: {rs[0]:.3e} {rs[1]:.3e} {rs[2]:.3e}; observed order {obs:.2f}, "
                       f"claimed > {K} (coefficient mismatch at order {order})"}


def _write_replay(case, vals, label, order, rep, replay_dir):
    replay_dir = replay_dir or os.path.join(VERIF, "replays")
    os.makedirs(replay_dir, exist_ok=True)
    safe = "".join(ch if ch.isalnum() or ch in "-_." else "_" for ch in f"{case.name}__{label}")
    path = os.path.join(replay_dir, safe + ".json")
    data = {"check": getattr(case, "check_id", "?"), "case": case.name, "case_args": getattr(case, "args", None), "domain": "G",
            "label": label, "order": order, "inputs": {k: [v.numerator, v.denominator] for k, v in vals.items()}, "observed": rep}
    with open(path, "w") as fh:
        json.dump(data, fh, indent=1, default=str)
    return path


def replay_file_g(case, data):
    import jax
    import jax.numpy as jnp

    gdom.configure(case.order, case.nf)
    vals = {k: Fraction(n, d) for k, (n, d) in data["inputs"].items()}
    probe = case.inputs(GSymV(holo=False))
    cnames = set()
    for k, a in probe.items():
        for x in np.asarray(a, dtype=object).reshape(-1):
            if isinstance(x, Q) and not qdom.rzero(x.c[1]):
                cnames.add(k)
                break
    inp0 = case.inputs(GConcV(values=vals))
    names = list(inp0.keys())
    f = _flatten_call(case, names)

    def real(inp):
        arrs = example_like(inp, cnames)
        out = f(*[jnp.asarray(arrs[k]) for k in names])
        return jax.tree_util.tree_map(lambda x: np.asarray(x), out)

    return replay_g(case, vals, data["label"], data.get("order", 0), real)
