"""Decision procedure shared by all checks (DESIGN.md 2.5).

decide(asserts): z3 on  pre AND NOT post.
  unsat  -> obligation discharged
  sat    -> model (to be replayed on the real code by the caller)
  unknown/timeout -> guided counterexample search: pin all but a few variables to small
             seeded rationals (nlsat answers such slices instantly); a guided `sat` is a
             genuine model; if no slice is sat the result stays `unknown` (inconclusive).
"""
import random
import time
from fractions import Fraction

import z3


def free_vars(es):
    seen = set()
    out = {}

    def walk(e):
        i = e.get_id()
        if i in seen:
            return
        seen.add(i)
        if z3.is_const(e) and e.decl().kind() == z3.Z3_OP_UNINTERPRETED:
            out[str(e)] = e
        for c in e.children():
            walk(c)

    for e in es:
        walk(e)
    return [out[k] for k in sorted(out)]


class Result:
    __slots__ = ("status", "model", "seconds", "how", "nvars")

    def __init__(self, status, model, seconds, how, nvars=0):
        self.status, self.model, self.seconds, self.how, self.nvars = status, model, seconds, how, nvars


def _solver(timeout_ms):
    s = z3.Solver()
    s.set("timeout", int(timeout_ms))
    return s


def decide(asserts, timeout_ms=60000, tries=12, seed=0, keep_free=2, guided_timeout_ms=10000,
           guided_first=False, variables=None):
    asserts = [a for a in asserts if not z3.is_true(a)]
    t0 = time.time()
    vs = list(variables) if variables is not None else free_vars(asserts)
    if asserts and z3.is_false(z3.simplify(asserts[-1])):  # the negated post-condition is last: usually the one that collapses
        return Result("unsat", None, time.time() - t0, "simplify", len(vs))
    if any(z3.is_false(z3.simplify(a)) for a in asserts[:-1]):
        return Result("unsat", None, time.time() - t0, "simplify", len(vs))

    def guided():
        rng = random.Random(seed)
        rvs = [v for v in vs if v.sort().kind() == z3.Z3_REAL_SORT]
        for k in range(tries):
            s2 = _solver(guided_timeout_ms)
            s2.add(*asserts)
            order = list(rvs)
            rng.shuffle(order)
            nfree = keep_free if k % 2 == 0 else max(1, keep_free - 1)
            for v in order[nfree:]:
                s2.add(v == z3.Q(rng.randint(-5, 5), rng.choice([1, 2, 2, 3, 4, 5])))
            if str(s2.check()) == "sat":
                return Result("sat", s2.model(), time.time() - t0, f"guided slice {k}", len(vs))
        return None

    if guided_first:
        g = guided()
        if g is not None:
            return g
    s = _solver(timeout_ms)
    s.add(*asserts)
    r = str(s.check())
    if r == "unsat":
        return Result("unsat", None, time.time() - t0, "full", len(vs))
    if r == "sat":
        return Result("sat", s.model(), time.time() - t0, "full", len(vs))
    if not guided_first:
        g = guided()
        if g is not None:
            return g
    return Result("unknown", None, time.time() - t0, f"full query {s.reason_unknown()}; {tries} guided slices unsat/unknown",
                  len(vs))


def model_value(model, var):
    """z3 model value -> Fraction (algebraic numbers are approximated to 30 digits)"""
    v = model.eval(var, model_completion=True)
    if z3.is_rational_value(v):
        return Fraction(v.numerator_as_long(), v.denominator_as_long())
    if z3.is_algebraic_value(v):
        a = v.approx(30)
        return Fraction(a.numerator_as_long(), a.denominator_as_long())
    if z3.is_int_value(v):
        return Fraction(v.as_long())
    raise ValueError(f"cannot read model value {v}")


def to_smt2(asserts, logic=None):
    s = z3.Solver()
    s.add(*asserts)
    return s.to_smt2()
