"""Case engine: trace the real code, interpret symbolically, decide, replay.

A `Case` describes one harness:
  inputs(V)        -> dict name -> object array of scalars made with V.r(name) / V.c(name)
                      (V is symbolic, seeded-random rational, or a replayed model)
  call(**arrays)   -> pytree of jnp arrays; calls the *real* repository code
  relations(inp, out) -> list of (label, lhs, rhs): lhs must equal rhs   (generic in the scalar type)
  pre(inp)         -> list of z3 constraints (optional)
The engine traces `call` with jax.make_jaxpr (linear-algebra stubs installed), validates
the interpreter against real execution on seeded random inputs, runs it on symbolic
inputs, asks the solver for  pre AND lhs != rhs, and replays every model on the real
jitted code before anything is reported.
"""
import json
import os
import sys
import time
import traceback
from fractions import Fraction

import numpy as np
import z3

from . import qdom, decide as dec
from .qdom import Q
from .poly import P, VARS as P_VARS, PolyBudget

VERIF = os.path.dirname(os.path.dirname(os.path.abspath(__file__)))


# --- value factories --------------------------------------------------------------------------
class SymV:
    kind = "sym"

    def __init__(self, holo=False):
        self.vars = {}
        self.holo = holo

    def r(self, name):
        if name not in self.vars:
            self.vars[name] = z3.Real(name)
        return Q(P.var(name))

    def c(self, name):
        if self.holo:
            # one holomorphic indeterminate per complex entry (see qdom.HOLO)
            q = self.r(name)
            qdom.HOLO.add(P_VARS.get(name))
            return q
        return Q((self.r(name + ".re").c[0], self.r(name + ".im").c[0]))

    def k(self, x):
        return Q.lift(x)


class ConcV:
    """concrete exact rationals: seeded random, or taken from a dict (replay / model)"""
    kind = "conc"

    def __init__(self, seed=0, values=None, den=(1, 2, 3, 4), lo=-6, hi=6):
        import random

        self.rng = random.Random(seed)
        self.values = {} if values is None else dict(values)
        self.fixed = values is not None
        self.den, self.lo, self.hi = den, lo, hi

    def r(self, name):
        if name not in self.values:
            if self.fixed:
                self.values[name] = Fraction(0)
            else:
                v = Fraction(self.rng.randint(self.lo, self.hi), self.rng.choice(self.den))
                if v == 0:
                    v = Fraction(1, 5)
                self.values[name] = v
        return Q(self.values[name])

    def c(self, name):
        if self.fixed and name in self.values and (name + ".re") not in self.values:
            return Q(self.values[name])  # model of a holomorphic-mode query: a real-valued witness
        return Q((self.r(name + ".re").c[0], self.r(name + ".im").c[0]))

    def k(self, x):
        return Q.lift(x)


def to_float(a):
    """object array of constant Q / ints -> numpy float64 / complex128 / int array"""
    a = np.asarray(a, dtype=object)
    flat = a.reshape(-1)
    if flat.size and all(isinstance(x, (int, np.integer)) and not isinstance(x, bool) for x in flat):
        return np.array([int(x) for x in flat], dtype=np.int64).reshape(a.shape)
    cplx = any(isinstance(x, Q) and not qdom.rzero(x.c[1]) for x in flat)
    out = np.empty(flat.shape, dtype=np.complex128 if cplx else np.float64)
    for i, x in enumerate(flat):
        x = Q.lift(x)
        assert x.isconst(), "to_float of a symbolic value"
        out[i] = complex(float(x.c[0]), float(x.c[1])) if cplx else float(x.c[0])
    return out.reshape(a.shape)


def to_py(a):
    """object array of constant Q -> object array of python complex/float (oracle in floats)"""
    a = np.asarray(a, dtype=object)
    out = np.empty(a.shape, dtype=object)
    for idx in np.ndindex(a.shape):
        x = a[idx]
        if isinstance(x, Q):
            out[idx] = complex(float(x.c[0]), float(x.c[1]))
        else:
            out[idx] = x
    return out


def example_like(inp, complex_names):
    ex = {}
    for k, a in inp.items():
        f = to_float(a)
        if k in complex_names and not np.iscomplexobj(f) and f.dtype != np.int64:
            f = f.astype(np.complex128)
        ex[k] = f
    return ex


def complex_inputs(case):
    """names of inputs that contain complex scalars (decided on a symbolic instance)"""
    inp = case.inputs(SymV(holo=False))
    out = set()
    for k, a in inp.items():
        for x in np.asarray(a, dtype=object).reshape(-1):
            if isinstance(x, Q) and not qdom.rzero(x.c[1]):
                out.add(k)
                break
    return out


class Case:
    name = "case"
    timeout_s = 120
    tol = 1e-7
    validate_tol = 1e-8
    stubs = dict(det=True, inv=True, expm=True, qr=False, eigh=False)
    n_validate = 2
    guided_first = True  # a non-zero normal form is almost surely satisfiable: look for the witness first
    holo = True  # complex inputs as holomorphic indeterminates; the interpreter refuses non-holomorphic uses
    recognize_outputs = ()  # labels of outputs to `recognize` as atoms before forming relations
    symbolic_note = ""

    def inputs(self, V):
        raise NotImplementedError

    def call(self, **kw):
        raise NotImplementedError

    def relations(self, inp, out):
        raise NotImplementedError

    def pre(self, inp):
        return []

    def functions(self):
        return []

    # optional: restrict which random concrete inputs are used for validation
    def conc(self, seed):
        return ConcV(seed)


def _flatten_call(case, names):
    import jax

    def f(*flat):
        return case.call(**dict(zip(names, flat)))

    return f


def run_case(case, seed=0, replay_dir=None, known=None):
    """returns a picklable result dict"""
    import jax
    import jax.numpy as jnp
    from . import jx, stubs

    t_start = time.time()
    res = {"case": case.name, "obligations": [], "violations": [], "inconclusive": [], "errors": [],
           "traced": {}, "validation": {}, "samples": [], "functions": case.functions(),
           "symbolic_note": case.symbolic_note, "known": []}
    try:
        qdom.reset()
        cnames = complex_inputs(case)
        inp0 = case.inputs(case.conc(seed + 1000))
        names = list(inp0.keys())
        ex = example_like(inp0, cnames)
        f = _flatten_call(case, names)
        with stubs.installed(**case.stubs):
            closed, out_shape = jax.make_jaxpr(f, return_shape=True)(*[jnp.asarray(ex[k]) for k in names])
        treedef = jax.tree_util.tree_structure(out_shape)
        hist = jx.prim_histogram(closed.jaxpr)
        res["traced"] = {"equations": int(sum(hist.values())), "primitives": hist}

        def interp(inp):
            it = jx.Interp()
            if hasattr(case, "prepare_interp"):
                case.prepare_interp(it, inp)
            outs = it.run(closed, [inp[k] for k in names])
            case.interp_probes = it.probes.get("eigh", [])
            case.interp = it
            return jax.tree_util.tree_unflatten(treedef, outs), it

        def real(inp):  # the repository code as it is, no stubs
            arrs = example_like(inp, cnames)
            out = f(*[jnp.asarray(arrs[k]) for k in names])
            return jax.tree_util.tree_map(lambda x: np.asarray(x), out)

        # ---- translator validation: interpreter (exact rationals) vs real float execution
        worst = 0.0
        for k in range(case.n_validate):
            for attempt in range(6):
                qdom.reset()
                inp = case.inputs(case.conc(seed + 17 * k + 1 + 1009 * attempt))
                qdom.NUMERIC[0] = True
                case.stage = "validate"
                try:
                    o_int, _ = interp(inp)
                    break
                except jx.Unsupported as ex:
                    # a degenerate draw of small rationals (an exactly singular matrix, a zero pivot): the code under test divides by
                    # zero on it, which no property claims anything about - draw again
                    if attempt == 5 or not any(t in str(ex) for t in ("singular", "constant zero")):
                        raise
                    res["traced"]["degenerate_draws_skipped"] = res["traced"].get("degenerate_draws_skipped", 0) + 1
                finally:
                    qdom.NUMERIC[0] = False
            o_real = real(inp)
            li = jax.tree_util.tree_leaves(o_int, is_leaf=lambda x: isinstance(x, np.ndarray))
            lr = jax.tree_util.tree_leaves(o_real)
            for a, b in zip(li, lr):
                fa = _num(a)
                err = float(np.max(np.abs(fa - b) / (1.0 + np.abs(b)))) if b.size else 0.0
                worst = max(worst, err)
        res["validation"] = {"instances": case.n_validate, "max_rel_err": worst}
        validation_error = None
        if not worst < case.validate_tol:
            # keep going: if the symbolic stage finds a violation that replays on the real code, the disagreement is the code's
            # (e.g. a quantity that should not depend on the factorisation LAPACK happens to pick); otherwise it is an engine error
            validation_error = f"translator validation failed: interpreter vs real execution differ by {worst:.3e}"

        # ---- concrete pre-screen (guided search with every variable pinned to seeded exact rationals): cheap, finds most
        # wrong formulas before the symbolic stage; a mismatch is only a candidate and is replayed on the real code
        prescreen_hits = 0
        for k in range(getattr(case, "n_prescreen", 2)):
            try:
                qdom.reset()
                Vc = case.conc(seed + 31 * k + 5)
                inp_c = case.inputs(Vc)
                qdom.NUMERIC[0] = True
                case.stage = "prescreen"
                try:
                    out_c, _ = interp(inp_c)
                    rels_c = case.relations(inp_c, out_c)
                finally:
                    qdom.NUMERIC[0] = False
            except Exception as ex:
                res["traced"]["prescreen_aborted"] = f"{type(ex).__name__}: {str(ex)[:200]}"
                if any(t in str(ex) for t in ("singular", "constant zero")):
                    continue  # degenerate draw: try the next seeded instance
                break
            done = {v["label"] for v in res["violations"]} | {v["label"] for v in res["known"]}
            for label, lhs, rhs in rels_c:
                if label in done:
                    continue
                lq, rq = Q.lift(lhs), Q.lift(rhs)
                if not (lq.isconst() and rq.isconst()):
                    continue
                a_, b_ = complex(float(lq.c[0]), float(lq.c[1])), complex(float(rq.c[0]), float(rq.c[1]))
                if abs(a_ - b_) <= 1e-7 * max(1.0, abs(a_), abs(b_)):
                    continue
                rep = _replay(case, dict(Vc.values), label, real)
                if rep["violates"]:
                    prescreen_hits += 1
                    key = f"{case.name}:{label}"
                    path = _write_replay(case, dict(Vc.values), label, rep, replay_dir)
                    v = {"label": label, "key": key, "replay": path, "detail": rep["summary"]}
                    res["obligations"].append({"label": label, "status": "known-finding" if (known and key in known) else "violated",
                                               "seconds": 0.0, "how": "concrete pre-screen (all variables pinned), replayed on the real code"})
                    (res["known"] if (known and key in known) else res["violations"]).append(v)
                    done.add(label)
                if len(res["violations"]) >= getattr(case, "max_violations", 4):
                    break
        if res["violations"]:
            res["symbolic_note"] = (res.get("symbolic_note", "") + " symbolic stage skipped: the concrete pre-screen already found replayed violations").strip()
            res["wall_s"] = round(time.time() - t_start, 3)
            return res
        # ---- symbolic run
        holo = case.holo
        while True:
            qdom.reset()
            V = SymV(holo=holo)
            inp = case.inputs(V)
            t0 = time.time()
            case.stage = "symbolic"
            try:
                out, it = interp(inp)
                res["traced"]["interp_s"] = round(time.time() - t0, 3)
                t0 = time.time()
                rels = case.relations(inp, out)
                res["traced"]["oracle_s"] = round(time.time() - t0, 3)
                break
            except qdom.NonHolomorphic as ex:
                if not holo:
                    raise
                holo = False  # the code conjugates / takes real parts of walker-dependent values: full complex variables
                res["traced"]["holomorphic_fallback"] = str(ex)
        # atoms the code divided by are assumed non-zero, unless the case states that its obligations do not involve any quotient
        pre = list(case.pre(inp)) + (qdom.inverted_nonzero() if getattr(case, "assume_inverted_nonzero", True) else [])
        for label, lhs, rhs in rels:
            ob = {"label": label}
            if len(res["violations"]) >= getattr(case, "max_violations", 4):
                ob.update(status="skipped (case already violated)", seconds=0.0, how="skipped")
                res["obligations"].append(ob)
                continue
            dis, side = qdom.diff_terms(lhs, rhs)
            # non-trivial = at least one side depends on symbolic inputs (its normal form is not a constant)
            ob["nontrivial"] = bool(getattr(case, "all_nontrivial", False)) or not (Q.lift(lhs).isconst() and Q.lift(rhs).isconst())
            if not dis:
                ob.update(status="unsat", seconds=0.0, how="identical normal forms")
                res["obligations"].append(ob)
                continue
            asserts = pre + side + [z3.Or(*dis)]
            allv = list(V.vars.values()) + [z3.Real(n) for n in P_VARS.names if n.startswith("@")]
            r = None
            polys = qdom.diff_polys(lhs, rhs)
            big = polys is not None and sum(len(d.d) for d in polys if isinstance(d, P)) > 150000
            if polys is not None and any(isinstance(d, P) for d in polys):
                # the normal form of the difference is a non-zero polynomial: look for a point where it does not vanish
                w = _sample_nonzero(polys, V, seed, pre=pre + side, case=case)
                if w is not None:
                    r = dec.Result("sat", _FakeModel(w), 0.0, "non-zero normal form evaluated at a seeded rational point", len(allv))
            if r is None and big:
                r = dec.Result("unknown", None, 0.0, "difference polynomial too large for the solver and no witness sampled", len(allv))
            if r is None:
                r = dec.decide(asserts, timeout_ms=int(case.timeout_s * 1000), seed=seed,
                               guided_first=case.guided_first, variables=allv)
            ob.update(status=r.status, seconds=round(r.seconds, 3), how=r.how, nvars=r.nvars)
            if len(res["samples"]) < 2:
                s = dec.to_smt2(asserts)
                res["samples"].append({"label": label, "smt2_head": s[:1500], "smt2_bytes": len(s)})
            if r.status == "sat":
                vals = r.model.vals if isinstance(r.model, _FakeModel) else {n: dec.model_value(r.model, v) for n, v in V.vars.items()}
                rep = _replay(case, vals, label, real)
                if not rep["violates"] and hasattr(case, "replay_variants"):
                    # the model also fixes uninterpreted values the real code computes itself: try the case's variants of the input part
                    for v2 in case.replay_variants(vals):
                        rep2 = _replay(case, v2, label, real)
                        if rep2["violates"]:
                            vals, rep = v2, rep2
                            break
                ob["replay"] = rep["summary"]
                if rep["violates"]:
                    key = f"{case.name}:{label}"
                    path = _write_replay(case, vals, label, rep, replay_dir)
                    v = {"label": label, "key": key, "replay": path, "detail": rep["summary"]}
                    if known and key in known:
                        res["known"].append(v)
                        ob["status"] = "known-finding"
                    else:
                        res["violations"].append(v)
                        ob["status"] = "violated"
                else:
                    ob["status"] = "spurious"
                    res["errors"].append(f"{label}: solver model does not reproduce on the real code ({rep['summary']})")
            elif r.status == "unknown":
                res["inconclusive"].append(label)
            res["obligations"].append(ob)
        if validation_error and not res["violations"] and not res["known"]:
            res["errors"].append(validation_error)
        elif validation_error:
            res["validation"]["note"] = validation_error + " (explained by the replayed violation)"
        # ---- vacuity guard: reachability twin.  The same harness with the post-condition replaced by the
        # wrong claim "lhs == 2*rhs" must come back violated (sat): this shows the precondition is satisfiable,
        # the assertion is reached and the compared quantity is not identically zero.
        twins = {"tried": 0, "sat": 0}

        def _size(x):
            x = Q.lift(x) if not hasattr(x, "c") else x
            return sum(len(c.d) for c in x.c if isinstance(c, P))
        cand = sorted(rels, key=lambda t: _size(t[1]) + _size(t[2]))
        allv_t = list(V.vars.values()) + [z3.Real(n) for n in P_VARS.names if n.startswith("@")]
        # pass 1: canonical differences - a seeded rational point inside the precondition where lhs != 2 rhs (no solver involved)
        sampled = 0
        for label, lhs, rhs in cand:
            if twins["sat"] >= 2 or sampled >= 12:
                break
            rhs2 = rhs * 2 if hasattr(rhs, "__mul__") else rhs
            polys2 = qdom.diff_polys(lhs, rhs2)
            if polys2 is None or all(qdom.rzero(d) for d in polys2):
                continue
            sampled += 1
            twins["tried"] += 1
            if os.environ.get("VERIF_DEBUG_SAMPLE"):
                print(f"[twin] {label}: sizes {_size(lhs)} {_size(rhs)}", file=sys.stderr)
            if _sample_nonzero(polys2, V, seed + 7, pre=pre, case=case) is not None:
                twins["sat"] += 1
        # pass 2: the solver, on the smallest relations (also the only way for differences that contain if-then-else terms)
        solved = 0
        for label, lhs, rhs in cand:
            if twins["sat"] >= 1 or solved >= 6 or _size(lhs) + _size(rhs) > 60000:
                break
            rhs2 = rhs * 2 if hasattr(rhs, "__mul__") else rhs
            dis, side = qdom.diff_terms(lhs, rhs2)
            if not dis:
                continue
            solved += 1
            twins["tried"] += 1
            r = dec.decide(pre + side + [z3.Or(*dis)], timeout_ms=10000, seed=seed + 7, guided_first=True, tries=6, variables=allv_t)
            if r.status == "sat":
                twins["sat"] += 1
        res["twins"] = twins
        if rels and twins["sat"] == 0:
            res["errors"].append("vacuity guard: no reachability twin came back sat (precondition unsatisfiable or all "
                                 "compared quantities identically zero)")
        res["atoms"] = dict(qdom.ATOMS.stats, count=len(qdom.ATOMS.vals), holomorphic_vars=len(qdom.HOLO))
    except (PolyBudget, MemoryError) as ex:
        tb = [ln.strip() for ln in traceback.format_exc().splitlines() if ln.strip().startswith("File") and ("/checks/" in ln or "/vf/" in ln)]
        res["inconclusive"].append(f"budget: {type(ex).__name__}: {ex} [{' <- '.join(t.split('/')[-1] for t in tb[-6:][::-1])}]")
    except Exception as ex:  # engine error; CrossHair-style BaseExceptions are not used here
        res["errors"].append(f"{type(ex).__name__}: {ex}\n{traceback.format_exc()[-1500:]}")
    res["wall_s"] = round(time.time() - t_start, 3)
    return res


class _FakeModel:
    def __init__(self, vals):
        self.vals = vals


def _sample_nonzero(polys, V, seed, tries=8, pre=(), case=None):
    import random
    rng = random.Random(seed + 991)
    names = P_VARS.names
    if pre:
        tries = max(tries, 64)  # sign / range preconditions reject many random points; a rejected try costs one substitution
    for t_ in range(tries):
        point = {}
        vals = {}
        drawn = {}
        if case is not None and pre and t_ < tries // 2:
            # the case's own generator of concrete instances knows where its precondition is easy to meet
            try:
                Vc = case.conc(seed + 7919 + t_)
                case.inputs(Vc)
                drawn = dict(Vc.values)
            except Exception:
                drawn = {}
        for i, n in enumerate(names):
            if n in drawn:
                v = Fraction(drawn[n])
            else:
                v = Fraction(rng.randint(1, 5) if n.startswith("@") else rng.randint(-4, 4), rng.choice([1, 2, 3]))
            if v == 0:
                v = Fraction(1, 2)
            point[i] = v
            if n in V.vars:
                vals[n] = v
        for n in V.vars:
            vals.setdefault(n, Fraction(0))
        try:
            if any((d.eval(point) != 0) if isinstance(d, P) else (d != 0) for d in polys):
                if pre:
                    subs = [(z3.Real(n), z3.RealVal(str(point[i].numerator)) / z3.RealVal(str(point[i].denominator))) for i, n in enumerate(names)]
                    bad = next((k for k, c in enumerate(pre) if not z3.is_true(z3.simplify(z3.substitute(c, *subs)))), None)
                    if bad is not None:
                        if os.environ.get("VERIF_DEBUG_SAMPLE"):
                            print(f"[sample] try {t_}: precondition {bad}/{len(pre)} not true: {str(z3.simplify(z3.substitute(pre[bad], *subs)))[:300]} <- {str(pre[bad])[:700]}", file=sys.stderr)
                        continue
                return vals
            elif os.environ.get("VERIF_DEBUG_SAMPLE"):
                print(f"[sample] try {t_}: difference vanishes at the point", file=sys.stderr)
        except Exception as ex:
            if os.environ.get("VERIF_DEBUG_SAMPLE"):
                print(f"[sample] exception {type(ex).__name__}: {ex}", file=sys.stderr)
            return None
    return None


def _num(a):
    a = np.asarray(a, dtype=object)
    out = np.empty(a.shape, dtype=np.complex128)
    for idx in np.ndindex(a.shape):
        x = a[idx]
        if isinstance(x, Q):
            assert x.isconst(), "validation output is symbolic"
            out[idx] = complex(float(x.c[0]), float(x.c[1]))
        else:
            out[idx] = complex(x)
    return out


def _replay(case, vals, label, real):
    """run the real code and the oracle (python complex arithmetic) on the model's inputs"""
    import jax

    V = ConcV(values=vals)
    inp = case.inputs(V)
    out = real(inp)
    inp_f = {k: to_py(v) for k, v in inp.items()}
    out_f = jax.tree_util.tree_map(lambda x: _as_obj(x), out)
    rels = case.relations(inp_f, out_f)
    for lab, lhs, rhs in rels:
        if lab != label:
            continue
        lhs, rhs = _cplx(lhs), _cplx(rhs)
        ok = bool(np.isfinite(lhs) and np.isfinite(rhs)) and max(abs(lhs.real), abs(lhs.imag), abs(rhs.real), abs(rhs.imag)) < 1e150
        if not ok:
            return {"violates": False, "summary": f"non-finite on replay: lhs={lhs} rhs={rhs}", "finite": False}
        scale = max(abs(lhs), abs(rhs), 1e-300)
        bad = (not ok) or abs(lhs - rhs) > case.tol * max(scale, 1.0) and abs(lhs - rhs) > case.tol * scale
        return {"violates": bool(ok and bad), "summary": f"real code lhs={lhs:.12g} oracle rhs={rhs:.12g}",
                "lhs": [lhs.real, lhs.imag], "rhs": [rhs.real, rhs.imag], "finite": bool(ok)}
    return {"violates": False, "summary": "label not found on replay"}


def _cplx(x):
    if isinstance(x, Q):
        assert x.isconst()
        return complex(float(x.c[0]), float(x.c[1]))
    return complex(x)


def _as_obj(x):
    x = np.asarray(x)
    o = np.empty(x.shape, dtype=object)
    for idx in np.ndindex(x.shape):
        v = x[idx]
        o[idx] = complex(v) if np.iscomplexobj(x) else (float(v) if np.issubdtype(x.dtype, np.floating) else v.item())
    return o


def _write_replay(case, vals, label, rep, replay_dir):
    replay_dir = replay_dir or os.path.join(VERIF, "replays")
    os.makedirs(replay_dir, exist_ok=True)
    safe = "".join(ch if ch.isalnum() or ch in "-_." else "_" for ch in f"{case.name}__{label}")
    path = os.path.join(replay_dir, safe + ".json")
    data = {"check": getattr(case, "check_id", "?"), "case": case.name, "case_args": getattr(case, "args", None),
            "label": label, "inputs": {k: [v.numerator, v.denominator] for k, v in vals.items()},
            "observed": rep}
    with open(path, "w") as fh:
        json.dump(data, fh, indent=1, default=str)
    return path


def replay_file(case, data):
    """re-run a stored counterexample against the real code; returns the replay dict"""
    import jax
    import jax.numpy as jnp
    from . import stubs

    vals = {k: Fraction(n, d) for k, (n, d) in data["inputs"].items()}
    cnames = complex_inputs(case)
    inp0 = case.inputs(ConcV(values=vals))
    names = list(inp0.keys())
    f = _flatten_call(case, names)

    def real(inp):
        arrs = example_like(inp, cnames)
        out = f(*[jnp.asarray(arrs[k]) for k in names])
        return jax.tree_util.tree_map(lambda x: np.asarray(x), out)

    return _replay(case, vals, data["label"], real)
