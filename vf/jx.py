"""JX: symbolic execution of repository functions through their jaxpr.

`trace(f, *example_args)` returns JAX's own IR of what the repository code computes at
those shapes; `Interp.run` walks it with arrays that are NumPy object arrays of domain
scalars (qdom.Q, gdom.G, Python ints/bools, explore.SB).  Data-movement primitives are
not re-implemented: the real JAX primitive is bound on an array of element ids.
Anything not implemented exactly raises `Unsupported` (engine error, exit 3).
"""
import math
import operator
from fractions import Fraction

import numpy as np
import jax
import jax.numpy as jnp
import jax.extend.core as jcore
import z3

from . import qdom
from .qdom import Q
from .explore import SB, tb


class Unsupported(Exception):
    pass


class _Probed:
    """placeholder for a value that was recorded as an IR probe instead of being computed"""

    def __repr__(self):
        return "PROBED"


PROBED = _Probed()


class KeyTok:
    """opaque PRNG key word: keys are never computed, only threaded; equal derivations give equal tokens"""
    __slots__ = ("path",)

    def __init__(self, path):
        self.path = path

    def __eq__(self, o):
        return isinstance(o, KeyTok) and o.path == self.path

    def __hash__(self):
        return hash(("KeyTok", self.path))

    def __repr__(self):
        return f"Key{self.path}"


class LazyPart:
    """real or imaginary part of a value that depends on holomorphic variables: it may only flow into the atan2 that
    forms a phase (recorded as an IR probe of the complex value itself); any other use is non-holomorphic."""

    def __init__(self, part, z):
        self.part, self.z = part, z

    def _bad(self, *a, **k):
        raise qdom.NonHolomorphic(f"{self.part} part of a walker-dependent value used in arithmetic")

    __add__ = __radd__ = __sub__ = __rsub__ = __mul__ = __rmul__ = __truediv__ = __rtruediv__ = __neg__ = __pow__ = _bad
    __lt__ = __le__ = __gt__ = __ge__ = _bad


def _where(e):
    try:
        from jax._src import source_info_util
        fr = source_info_util.user_frames(e.source_info.traceback)
        return f"{e.primitive.name} <- " + " <- ".join(f"{f.file_name.split('/')[-1]}:{f.start_line}({f.function_name})" for f in list(fr)[:4])
    except Exception:
        return e.primitive.name


def trace(f, *args, **kw):
    return jax.make_jaxpr(f, **kw)(*args)


def prim_histogram(jaxpr, acc=None):
    acc = {} if acc is None else acc
    for e in jaxpr.eqns:
        acc[e.primitive.name] = acc.get(e.primitive.name, 0) + 1
        for v in e.params.values():
            for sub in v if isinstance(v, (list, tuple)) else [v]:
                if hasattr(sub, "jaxpr") and hasattr(sub.jaxpr, "eqns"):
                    prim_histogram(sub.jaxpr, acc)
                elif hasattr(sub, "eqns"):
                    prim_histogram(sub, acc)
    return acc


def n_eqns(jaxpr):
    return sum(prim_histogram(jaxpr).values())


STRUCT = {"reshape", "transpose", "slice", "squeeze", "broadcast_in_dim", "concatenate", "rev", "copy",
          "copy_p", "expand_dims", "pad", "split", "stack", "unstack"}
CALLS = {"jit", "pjit", "closed_call", "core_call", "remat", "checkpoint", "custom_jvp_call",
         "custom_vjp_call", "custom_vjp_call_jaxpr", "remat2"}
CMP = {"eq": operator.eq, "ne": operator.ne, "lt": operator.lt, "gt": operator.gt, "le": operator.le,
       "ge": operator.ge}


def isnum(dtype):
    return np.issubdtype(dtype, np.floating) or np.issubdtype(dtype, np.complexfloating)


def obj(shape):
    return np.empty(shape, dtype=object)


def vec(f, *arrs):
    arrs = np.broadcast_arrays(*[np.asarray(a, dtype=object) for a in arrs])
    out = obj(arrs[0].shape)
    for idx in np.ndindex(out.shape):
        out[idx] = f(*[a[idx] for a in arrs])
    return out


class Interp:
    def __init__(self, wrap=None, order_hint=None):
        self.count = {}
        self.wrap = wrap or (lambda q: q)  # lifts a Q constant into the working domain (G wraps)
        self.probes = {}  # name -> list of (ins, outs) recorded at named jit boundaries
        self.probe_names = set()
        # named jit calls treated as uninterpreted functions with congruence (A3): name -> None (all outputs opaque) or a list of
        # output positions that are nevertheless evaluated for real (demand-driven slice of the callee)
        self.opaque_calls = {}
        self.cmp_oracle = None  # see _cmp
        self.scan_hook = None  # see p_scan
        self.call_hooks = {}  # see apply
        self.call_log = []

    # ---- literals -----------------------------------------------------------------------
    def lit(self, x):
        a = np.asarray(x)
        out = obj(a.shape)
        if np.iscomplexobj(a):
            for idx in np.ndindex(a.shape):
                v = a[idx]
                if not (math.isfinite(v.real) and math.isfinite(v.imag)):
                    out[idx] = self.wrap(qdom.opaque_fn("nonfinite_literal:" + repr(complex(v)), [], False, semantic=False))
                    continue
                out[idx] = self.wrap(Q((Fraction(float(v.real)), Fraction(float(v.imag)))))
        elif a.dtype == bool:
            for idx in np.ndindex(a.shape):
                out[idx] = bool(a[idx])
        elif np.issubdtype(a.dtype, np.integer):
            for idx in np.ndindex(a.shape):
                out[idx] = int(a[idx])
        elif np.issubdtype(a.dtype, np.floating):
            for idx in np.ndindex(a.shape):
                v = float(a[idx])
                if math.isfinite(v):
                    out[idx] = self.wrap(Q(Fraction(v)))
                else:
                    # NaN / inf literals (fill values of out-of-bounds gathers): an opaque real that no identity can use
                    out[idx] = self.wrap(qdom.opaque_fn("nonfinite_literal:" + repr(v), [], True, semantic=False))
        else:
            raise Unsupported(f"literal of dtype {a.dtype}")
        return out

    def num(self, x):
        """python number -> domain scalar"""
        return self.wrap(Q.lift(x))

    # ---- driver --------------------------------------------------------------------------
    def run(self, closed, args):
        args = [a if isinstance(a, np.ndarray) and a.dtype == object else self.lit(a) for a in args]
        return self.eval(closed.jaxpr, [self.lit(c) for c in closed.consts], args)

    def eval(self, jaxpr, consts, args, need=None, preset=None):
        env = {}
        preset = preset or {}

        def read(v):
            if isinstance(v, jcore.Literal):
                return self.lit(v.val)
            return env[v]

        assert len(jaxpr.constvars) == len(consts)
        for v, c in zip(jaxpr.constvars, consts):
            env[v] = c
        assert len(jaxpr.invars) == len(args), (len(jaxpr.invars), len(args))
        for v, a in zip(jaxpr.invars, args):
            assert tuple(a.shape) == tuple(v.aval.shape), ("arg shape", a.shape, v.aval.shape)
            env[v] = a
        # backward slice: which variables are needed for the requested outputs
        needed = set()
        for k, v in enumerate(jaxpr.outvars):
            if (need is None or need[k]) and not isinstance(v, jcore.Literal):
                needed.add(v)
        for v, val in preset.items():
            env[v] = val
        live = [False] * len(jaxpr.eqns)
        for i in range(len(jaxpr.eqns) - 1, -1, -1):
            e = jaxpr.eqns[i]
            if all(o in preset for o in e.outvars if o in needed) and any(o in needed for o in e.outvars):
                continue  # cut point: the value is supplied, its producer is not evaluated
            if any(o in needed for o in e.outvars):
                live[i] = True
                for v in e.invars:
                    if not isinstance(v, jcore.Literal):
                        needed.add(v)
        for i, e in enumerate(jaxpr.eqns):
            if not live[i]:
                continue
            ins = [read(v) for v in e.invars]
            sub_need = [o in needed for o in e.outvars]
            try:
                outs = self.apply(e, ins, sub_need)
            except ZeroDivisionError as ex:
                raise Unsupported(f"division by a constant zero ({ex})  at {_where(e)} [{', '.join(str(v.aval) for v in e.invars)}]") from None
            except Unsupported as ex:
                if "  at " not in str(ex):
                    raise Unsupported(f"{ex}  at {_where(e)} [{', '.join(str(v.aval) for v in e.invars)}] operand types {[type(a.reshape(-1)[0]).__name__ if a.size else None for a in ins]}") from None
                raise
            if not e.primitive.multiple_results:
                outs = [outs]
            for v, o in zip(e.outvars, outs):
                if o is None:
                    continue
                if not isinstance(o, np.ndarray) or o.dtype != object:
                    o2 = obj(np.shape(o))
                    o2[...] = o
                    o = o2
                if o.shape != tuple(v.aval.shape):
                    raise Unsupported(f"{e.primitive.name}: shape {o.shape} != {v.aval.shape}")
                if o.size and not isnum(v.aval.dtype) and not isinstance(o.reshape(-1)[0], (int, bool, SB, np.integer, np.bool_, KeyTok)) and not self.opaque_calls:
                    raise Unsupported(f"{e.primitive.name}: produced {type(o.reshape(-1)[0]).__name__} for dtype {v.aval.dtype} at {_where(e)}")
                env[v] = o
        return [read(v) if (need is None or need[k]) else None for k, v in enumerate(jaxpr.outvars)]

    # ---- structural primitives through real JAX on element ids ---------------------------
    def struct(self, e, ins, which=None):
        pool = []
        idins = []
        for k, a in enumerate(ins):
            if which is not None and k not in which:
                idins.append(self.concrete(a, e.invars[k].aval.dtype))
                continue
            ids = np.arange(len(pool), len(pool) + a.size, dtype=np.int64).reshape(a.shape)
            pool.extend(a.reshape(-1).tolist())
            idins.append(ids)
        with jax.ensure_compile_time_eval():
            res = e.primitive.bind(*[jnp.asarray(x) for x in idins], **e.params)
        multi = e.primitive.multiple_results
        outs = []
        for r in res if multi else [res]:
            r = np.asarray(r)
            o = obj(r.shape)
            flat = r.reshape(-1)
            of = o.reshape(-1)
            for i in range(flat.size):
                of[i] = pool[int(flat[i])]
            outs.append(of.reshape(r.shape))
        return outs if multi else outs[0]

    def concrete(self, a, dtype):
        """object array of python ints/bools -> numpy array (forces path decisions on SB)"""
        out = np.empty(a.shape, dtype=dtype)
        for idx in np.ndindex(a.shape):
            v = a[idx]
            if isinstance(v, SB):
                v = bool(v)
            if isinstance(v, Q):
                if not v.isconst():
                    raise Unsupported("symbolic value where a concrete index is required")
                v = v.c[0]
            out[idx] = v
        return out

    # ---- one equation ---------------------------------------------------------------------
    def apply(self, e, ins, need=None):
        n = e.primitive.name
        self.count[n] = self.count.get(n, 0) + 1
        p = e.params
        fn = getattr(self, "p_" + n.replace("-", "_"), None)
        if n in CALLS and p.get("name") in self.opaque_calls:
            return self.opaque_call(e, ins, p, need)
        if n in CALLS:
            cj = p.get("jaxpr") or p.get("call_jaxpr") or p.get("fun_jaxpr")
            name = p.get("name")
            if hasattr(cj, "jaxpr"):
                outs = self.eval(cj.jaxpr, [self.lit(c) for c in cj.consts], ins, need)
            else:
                outs = self.eval(cj, [], ins, need)
            if name in self.probe_names:
                self.probes.setdefault(name, []).append((ins, outs))
            if name in self.call_hooks:  # a harness may observe / replace the result of a named call (inductive cut points)
                r = self.call_hooks[name](e, ins, outs)
                if r is not None:
                    outs = r
            return outs
        if n in STRUCT:
            return self.struct(e, ins)
        if fn is None:
            raise Unsupported(f"primitive {n} ({ {k: str(v)[:40] for k, v in p.items()} })")
        return fn(e, ins, p)

    def _arrkey(self, a):
        out = []
        for x in a.reshape(-1):
            if isinstance(x, Q):
                out.append(qdom.q_key(x))
            elif isinstance(x, KeyTok):
                out.append(("k", x.path))
            elif isinstance(x, SB):
                out.append(("b", x.e.get_id()))
            else:
                out.append(("c", x))
        return (a.shape, tuple(out))

    def opaque_call(self, e, ins, p, need):
        name = p["name"]
        spec = self.opaque_calls[name]
        derived = {}
        if isinstance(spec, dict):
            real_idx = spec.get("real", [])
            derived = spec.get("derived", {})
        else:
            real_idx = spec or []
        if callable(derived):
            derived = derived(e)
        identity_tail = isinstance(spec, dict) and spec.get("identity_tail")
        key = (name, tuple(self._arrkey(a) for a in ins))
        cache = self.__dict__.setdefault("_opaque_call_cache", {})
        self.call_log.append((name, ins))
        if key in cache:
            return cache[key]
        cj = p.get("jaxpr") or p.get("call_jaxpr")
        outs = [None] * len(e.outvars)
        if real_idx:
            mask = [k in real_idx for k in range(len(e.outvars))]
            sub = self.eval(cj.jaxpr, [self.lit(c) for c in cj.consts], ins, mask)
            for k in real_idx:
                outs[k] = sub[k]
        nth = len(cache)
        inner = getattr(cj, "jaxpr", cj)
        for k, v in enumerate(e.outvars):
            if outs[k] is not None:
                continue
            ov = inner.outvars[k]
            if identity_tail:
                # assumption of the harness (e.g. optimize() of a converged trial): the call returns its trailing arguments unchanged
                src = ins[len(ins) - len(e.outvars) + k]
                if src.shape == tuple(v.aval.shape):
                    outs[k] = src
                    continue
            if not isinstance(ov, jcore.Literal) and ov in inner.invars:
                outs[k] = ins[inner.invars.index(ov)]  # the callee returns this argument unchanged: exact pass-through
                continue
            dt = v.aval.dtype
            shape = tuple(v.aval.shape)
            o = obj(shape)
            for idx in np.ndindex(shape):
                if np.issubdtype(dt, np.unsignedinteger):
                    o[idx] = KeyTok(("call", name, nth, k) + idx)
                elif dt == bool:
                    o[idx] = SB(z3.Bool(f"@call:{name}#{nth}.{k}{list(idx)}"))
                else:
                    a_ = qdom.ATOMS.opaque(f"call:{name}.out{k}", is_real=not np.issubdtype(dt, np.complexfloating))
                    o[idx] = self.wrap(Q(1, {a_: 1}))
            outs[k] = o
        # outputs that are functions of other (opaque) outputs of the same call: evaluated for real with those outputs as cut points
        for k, deps in derived.items():
            mask = [j == k for j in range(len(e.outvars))]
            preset = {cj.jaxpr.outvars[d]: outs[d] for d in deps}
            sub = self.eval(cj.jaxpr, [self.lit(c) for c in cj.consts], ins, mask, preset=preset)
            outs[k] = sub[k]
        cache[key] = outs
        return outs

    # data movement with index operands
    def p_stop_gradient(self, e, ins, p):
        return ins[0]

    def p_gather(self, e, ins, p):
        return self.struct(e, ins, which={0})

    def p_dynamic_slice(self, e, ins, p):
        return self.struct(e, ins, which={0})

    def p_dynamic_update_slice(self, e, ins, p):
        return self.struct(e, ins, which={0, 1})

    def p_scatter(self, e, ins, p):
        return self.struct(e, ins, which={0, 2})

    def _scatter_combine(self, e, ins, p, comb):
        # scatter-add / scatter-mul: find for every operand element the updates that hit it by
        # running the real primitive on one-hot integer encodings (exact for unique or repeated indices)
        operand, indices, updates = ins
        idx = self.concrete(indices, e.invars[1].aval.dtype)
        out = operand.copy()
        flat_out = out.reshape(-1)
        nupd = updates.size
        # for each update element u, scatter-add of a one-hot at u shows where it lands
        for u in range(nupd):
            oh = np.zeros(updates.size, dtype=np.int64)
            oh[u] = 1
            with jax.ensure_compile_time_eval():
                hit = np.asarray(jax.lax.scatter_add(jnp.zeros(operand.shape, dtype=jnp.int64), jnp.asarray(idx),
                                                     jnp.asarray(oh.reshape(updates.shape)),
                                                     dimension_numbers=p["dimension_numbers"],
                                                     indices_are_sorted=p.get("indices_are_sorted", False),
                                                     unique_indices=p.get("unique_indices", False),
                                                     mode=p.get("mode"))).reshape(-1)
            for pos in np.nonzero(hit)[0]:
                for _ in range(int(hit[pos])):
                    flat_out[pos] = comb(flat_out[pos], updates.reshape(-1)[u])
        return flat_out.reshape(operand.shape)

    def p_scatter_add(self, e, ins, p):
        return self._scatter_combine(e, ins, p, operator.add)

    p_scatter_add = p_scatter_add

    def p_scatter_mul(self, e, ins, p):
        return self._scatter_combine(e, ins, p, operator.mul)

    def p_iota(self, e, ins, p):
        with jax.ensure_compile_time_eval():
            a = np.asarray(jax.lax.broadcasted_iota(p["dtype"], p["shape"], p["dimension"]))
        return self.lit(a)

    def p_select_n(self, e, ins, p):
        pred, cases = ins[0], ins[1:]
        out = obj(cases[0].shape)
        pb = np.broadcast_to(pred, cases[0].shape)
        numeric = isnum(e.outvars[0].aval.dtype)
        for idx in np.ndindex(out.shape):
            c = pb[idx]
            if isinstance(c, SB):
                if len(cases) != 2:
                    raise Unsupported("select_n with symbolic non-boolean predicate")
                a, b = cases[0][idx], cases[1][idx]  # select_n: False -> case0, True -> case1
                if numeric:
                    out[idx] = self.ite(c, b, a)
                elif isinstance(a, (bool, SB)) or isinstance(b, (bool, SB)):
                    out[idx] = SB(z3.If(c.e, tb(b), tb(a)))
                else:
                    out[idx] = b if bool(c) else a  # integer data: path split
            else:
                out[idx] = cases[int(c)][idx]
        return out

    def ite(self, c, a, b):
        if hasattr(a, "_g_domain") or hasattr(b, "_g_domain"):
            raise Unsupported("symbolic select in the graded domain")
        return qdom.ite(c, a, b)

    # arithmetic -------------------------------------------------------------------------
    def p_add(self, e, ins, p):
        return ins[0] + ins[1]

    p_add_any = p_add

    def p_sub(self, e, ins, p):
        return ins[0] - ins[1]

    def p_mul(self, e, ins, p):
        return ins[0] * ins[1]

    def p_neg(self, e, ins, p):
        return -ins[0]

    def p_div(self, e, ins, p):
        if np.issubdtype(e.outvars[0].aval.dtype, np.integer):
            return vec(lambda a, b: int(math.trunc(Fraction(a, b))), ins[0], ins[1])
        return ins[0] / ins[1]

    def p_rem(self, e, ins, p):
        return vec(lambda a, b: int(math.fmod(a, b)), ins[0], ins[1])

    def p_integer_pow(self, e, ins, p):
        y = p["y"]
        return vec(lambda a: a ** y, ins[0])

    def p_square(self, e, ins, p):
        return ins[0] * ins[0]

    def p_pow(self, e, ins, p):
        def f(a, b):
            if hasattr(b, "_g_domain"):
                b = b.const()
            b = Q.lift(b)
            if hasattr(a, "_g_domain"):
                return a ** b
            if b.isconst() and b.c[0] == Fraction(1, 2):
                return self.sqrt1(a)
            if b.isconst() and b.c[0] == Fraction(-1, 2):
                return 1 / self.sqrt1(a)
            if b.isconst() and b.c[0].denominator == 2:
                k = (b.c[0] - Fraction(1, 2))
                return self.sqrt1(a) * (a ** int(k))
            if b.isconst() and b.c[0].denominator == 1:
                return a ** int(b.c[0])
            raise Unsupported("pow with non-integer exponent")
        return vec(f, ins[0], ins[1])

    def sqrt1(self, a):
        if hasattr(a, "_g_domain"):
            return a.sqrt()
        a = Q.lift(a)
        if a.isconst() and a.c[1] == 0 and a.c[0] >= 0:
            n, d = a.c[0].numerator, a.c[0].denominator
            rn, rd = math.isqrt(n), math.isqrt(d)
            if rn * rn == n and rd * rd == d:
                return self.num(Fraction(rn, rd))
        return qdom.opaque_fn("sqrt", [a], True)

    def p_sqrt(self, e, ins, p):
        return vec(self.sqrt1, ins[0])

    def p_rsqrt(self, e, ins, p):
        return vec(lambda a: 1 / self.sqrt1(a), ins[0])

    def _opq(self, name):
        def f(a):
            if hasattr(a, "_g_domain"):
                return getattr(a, name)()
            a = Q.lift(a)
            if name == "exp" and a.iszero():
                return self.num(1)
            if name in ("log",) and a.isconst() and a.c == (1, 0):
                return self.num(0)
            if name in ("sin", "erf") and a.iszero():
                return self.num(0)
            if name == "cos" and a.iszero():
                return self.num(1)
            return qdom.opaque_fn(name, [a], a.isreal())
        return f

    def p_exp(self, e, ins, p):
        return vec(self._opq("exp"), ins[0])

    def p_log(self, e, ins, p):
        return vec(self._opq("log"), ins[0])

    def p_cos(self, e, ins, p):
        return vec(self._opq("cos"), ins[0])

    def p_sin(self, e, ins, p):
        return vec(self._opq("sin"), ins[0])

    def p_erf(self, e, ins, p):
        return vec(self._opq("erf"), ins[0])

    def p_acosh(self, e, ins, p):
        return vec(self._opq("acosh"), ins[0])

    def p_atan2(self, e, ins, p):
        s0 = ins[0].reshape(-1)[0] if ins[0].size else None
        s1 = ins[1].reshape(-1)[0] if ins[1].size else None
        if isinstance(s0, LazyPart) or isinstance(s1, LazyPart):
            def z_of(a, b):
                if not (isinstance(a, LazyPart) and isinstance(b, LazyPart) and a.part == "im" and b.part == "re" and a.z is b.z):
                    raise qdom.NonHolomorphic("atan2 of parts of different values")
                return a.z
            self.probes.setdefault("angle", []).append(vec(z_of, ins[0], ins[1]))
            return vec(lambda a, b: PROBED, ins[0], ins[1])
        if hasattr(s0, "_g_domain") or hasattr(ins[1].reshape(-1)[0] if ins[1].size else None, "_g_domain"):
            # graded domain: the phase itself is not a series; record the operands (imag, real) as an IR probe
            self.probes.setdefault("atan2", []).append((ins[0], ins[1]))
            return vec(lambda a, b: PROBED, ins[0], ins[1])
        return vec(lambda a, b: qdom.opaque_fn("atan2", [Q.lift(a), Q.lift(b)], True), ins[0], ins[1])

    def p_abs(self, e, ins, p):
        if np.issubdtype(e.invars[0].aval.dtype, np.integer):
            return vec(abs, ins[0])
        return vec(lambda a: qdom.qabs(a), ins[0])

    def p_sign(self, e, ins, p):
        if not isnum(e.outvars[0].aval.dtype):
            return vec(lambda a: (a > 0) - (a < 0), ins[0])

        def f(a):
            a = Q.lift(a)
            if a.isconst():
                return self.num((a.c[0] > 0) - (a.c[0] < 0))
            x = qdom.tz(qdom._real_value(a, "sign"))
            return Q(z3.If(x > 0, z3.RealVal(1), z3.If(x < 0, z3.RealVal(-1), z3.RealVal(0))))
        return vec(f, ins[0])

    def p_max(self, e, ins, p):
        if not isnum(e.outvars[0].aval.dtype):
            return vec(max, ins[0], ins[1])
        return vec(lambda a, b: self.ite(qdom.compare("ge", a, b), a, b), ins[0], ins[1])

    def p_min(self, e, ins, p):
        if not isnum(e.outvars[0].aval.dtype):
            return vec(min, ins[0], ins[1])
        return vec(lambda a, b: self.ite(qdom.compare("le", a, b), a, b), ins[0], ins[1])

    def _part(self, which):
        def f(a):
            try:
                return a.real() if which == "re" else a.imag()
            except qdom.NonHolomorphic:
                return LazyPart(which, a)
        return f

    def p_real(self, e, ins, p):
        return vec(self._part("re"), ins[0])

    def p_imag(self, e, ins, p):
        return vec(self._part("im"), ins[0])

    def p_conj(self, e, ins, p):
        return vec(lambda a: a.conj(), ins[0])

    def p_complex(self, e, ins, p):
        i = self.num(1j)
        return vec(lambda a, b: a + i * b, ins[0], ins[1])

    def p_convert_element_type(self, e, ins, p):
        a = ins[0]
        src = e.invars[0].aval.dtype
        dst = e.outvars[0].aval.dtype
        if isnum(dst):
            if isnum(src):
                if np.issubdtype(src, np.complexfloating) and not np.issubdtype(dst, np.complexfloating):
                    return vec(lambda x: x.real(), a)
                return a  # width changes are the identity over the reals (A1)
            if src == bool:
                return vec(lambda x: self.ite(x, self.num(1), self.num(0)) if isinstance(x, SB) else self.num(int(x)), a)
            return vec(lambda x: x if isinstance(x, Q) else self.num(int(x)), a)  # a symbolic count (see below) converts exactly
        if dst == bool:
            if src == bool:
                return a
            return vec(lambda x: x != 0, a)
        if np.issubdtype(dst, np.integer):
            if src == bool:
                # a data-dependent count (e.g. count_nonzero of symbolic weights): keep it symbolic when no path explorer is active
                from . import explore
                if explore.ACTIVE is None:
                    return vec(lambda x: qdom.ite(x, Q(1), Q(0)) if isinstance(x, SB) else int(bool(x)), a)
                return vec(lambda x: int(bool(x)), a)
            if np.issubdtype(src, np.integer):
                return a
            def f(x):
                x = Q.lift(x)
                if x.isconst():
                    return int(math.trunc(x.c[0]))
                raise Unsupported("float->int conversion of a symbolic value")
            return vec(f, a)
        raise Unsupported(f"convert_element_type {src}->{dst}")

    # comparisons / logic ------------------------------------------------------------------
    def _cmp(self, op):
        def f(x, y):
            if isinstance(x, Q) or isinstance(y, Q):
                if self.cmp_oracle is not None:
                    # forced branch decisions (a harness enumerates the outcomes of selected comparisons itself and keeps the
                    # decisions as path conditions); None = not handled by the oracle
                    d = self.cmp_oracle(op, Q.lift(x), Q.lift(y))
                    if d is not None:
                        return bool(d)
                return qdom.compare(op, x, y)
            if isinstance(x, SB) or isinstance(y, SB):
                if op == "eq":
                    return SB(tb(x) == tb(y))
                if op == "ne":
                    return SB(tb(x) != tb(y))
                raise Unsupported("ordering of booleans")
            if hasattr(x, "_g_domain") or hasattr(y, "_g_domain"):
                raise Unsupported("comparison in the graded domain")
            return bool(CMP[op](x, y))
        return f

    def p_eq(self, e, ins, p):
        return vec(self._cmp("eq"), ins[0], ins[1])

    def p_ne(self, e, ins, p):
        return vec(self._cmp("ne"), ins[0], ins[1])

    def p_lt(self, e, ins, p):
        return vec(self._cmp("lt"), ins[0], ins[1])

    def p_le(self, e, ins, p):
        return vec(self._cmp("le"), ins[0], ins[1])

    def p_gt(self, e, ins, p):
        return vec(self._cmp("gt"), ins[0], ins[1])

    def p_ge(self, e, ins, p):
        return vec(self._cmp("ge"), ins[0], ins[1])

    def p_le_to(self, e, ins, p):  # total-order <= (differs from le only on NaN / signed zeros)
        return vec(self._cmp("le"), ins[0], ins[1])

    def p_lt_to(self, e, ins, p):
        return vec(self._cmp("lt"), ins[0], ins[1])

    def p_and(self, e, ins, p):
        return vec(lambda a, b: (a & b), ins[0], ins[1])

    def p_or(self, e, ins, p):
        return vec(lambda a, b: (a | b), ins[0], ins[1])

    def p_not(self, e, ins, p):
        if e.invars[0].aval.dtype != bool:
            raise Unsupported("bitwise not on integers")
        return vec(lambda a: (~a) if isinstance(a, SB) else (not a), ins[0])

    def p_is_finite(self, e, ins, p):
        return vec(lambda a: True, ins[0])  # real domains contain no NaN/inf (A1); F domain handles them

    def p_shift_right_logical(self, e, ins, p):
        return vec(lambda a, b: int(a) >> int(b), ins[0], ins[1])

    def p_shift_left(self, e, ins, p):
        return vec(lambda a, b: int(a) << int(b), ins[0], ins[1])

    # reductions ------------------------------------------------------------------------------
    def _reduce(self, a, axes, f, init):
        axes = tuple(sorted(axes))
        if not axes:
            return a
        moved = np.moveaxis(a, axes, range(len(axes)))
        rest = moved.shape[len(axes):]
        flat = moved.reshape((-1,) + rest)
        out = obj(rest)
        for idx in np.ndindex(rest):
            acc = None
            for k in range(flat.shape[0]):
                v = flat[(k,) + idx]
                acc = v if acc is None else f(acc, v)
            out[idx] = acc if acc is not None else init()
        return out

    def p_reduce_sum(self, e, ins, p):
        z = (lambda: self.num(0)) if isnum(e.outvars[0].aval.dtype) else (lambda: 0)
        return self._reduce(ins[0], p["axes"], operator.add, z)

    def p_reduce_prod(self, e, ins, p):
        o = (lambda: self.num(1)) if isnum(e.outvars[0].aval.dtype) else (lambda: 1)
        return self._reduce(ins[0], p["axes"], operator.mul, o)

    def p_reduce_max(self, e, ins, p):
        if isnum(e.outvars[0].aval.dtype):
            return self._reduce(ins[0], p["axes"], lambda a, b: self.ite(qdom.compare("ge", a, b), a, b), None)
        return self._reduce(ins[0], p["axes"], max, None)

    def p_reduce_min(self, e, ins, p):
        if isnum(e.outvars[0].aval.dtype):
            return self._reduce(ins[0], p["axes"], lambda a, b: self.ite(qdom.compare("le", a, b), a, b), None)
        return self._reduce(ins[0], p["axes"], min, None)

    def p_reduce_or(self, e, ins, p):
        return self._reduce(ins[0], p["axes"], lambda a, b: a | b, lambda: False)

    def p_reduce_and(self, e, ins, p):
        return self._reduce(ins[0], p["axes"], lambda a, b: a & b, lambda: True)

    def p_argmax(self, e, ins, p):
        a = ins[0]
        (ax,) = p["axes"]
        moved = np.moveaxis(a, ax, 0)
        out = obj(moved.shape[1:])
        for idx in np.ndindex(out.shape):
            best = 0
            for k in range(1, moved.shape[0]):
                c = qdom.compare("gt", moved[(k,) + idx], moved[(best,) + idx])  # first maximal element wins
                if bool(c):
                    best = k
            out[idx] = best
        return out

    def p_cumsum(self, e, ins, p):
        a = ins[0]
        ax = p["axis"]
        out = a.copy()
        n = a.shape[ax]
        rng = range(n - 2, -1, -1) if p.get("reverse") else range(1, n)
        sl = [slice(None)] * a.ndim
        for k in rng:
            prev = k + 1 if p.get("reverse") else k - 1
            s1 = tuple(sl[:ax] + [k] + sl[ax + 1:])
            s0 = tuple(sl[:ax] + [prev] + sl[ax + 1:])
            out[s1] = out[s0] + a[s1]
        return out

    def p_dot_general(self, e, ins, p):
        (lc, rc), (lb, rb) = p["dimension_numbers"]
        a, b = ins
        la = [i for i in range(a.ndim) if i not in lc and i not in lb]
        rfree = [i for i in range(b.ndim) if i not in rc and i not in rb]
        at = np.transpose(a, list(lb) + la + list(lc))
        bt = np.transpose(b, list(rb) + rfree + list(rc))
        bs = [a.shape[i] for i in lb]
        fa = [a.shape[i] for i in la]
        fb = [b.shape[i] for i in rfree]
        cs = [a.shape[i] for i in lc]
        B, A_, B_, C = (int(np.prod(x, dtype=int)) for x in (bs, fa, fb, cs))
        at = at.reshape(B, A_, C)
        bt = bt.reshape(B, B_, C)
        out = obj((B, A_, B_))
        zero = self.num(0) if isnum(e.outvars[0].aval.dtype) else 0
        for x in range(B):
            for i in range(A_):
                for j in range(B_):
                    acc = None
                    for k in range(C):
                        t = at[x, i, k] * bt[x, j, k]
                        acc = t if acc is None else acc + t
                    out[x, i, j] = acc if acc is not None else zero
        return out.reshape(bs + fa + fb)

    # linear-algebra contracts (stubs.py) ------------------------------------------------------
    def p_sdet(self, e, ins, p):
        a = ins[0]
        out = obj(a.shape[:-2])
        for idx in np.ndindex(out.shape):
            d = qdom.det(a[idx].tolist()) if a.shape[-1] else self.num(1)
            out[idx] = d.as_atom() if isinstance(d, Q) else d
        return out

    def p_sinv(self, e, ins, p):
        a = ins[0]
        out = obj(a.shape)
        n = a.shape[-1]
        for idx in np.ndindex(a.shape[:-2]):
            M = a[idx].tolist()
            d = qdom.det(M)
            if isinstance(d, Q):
                d = d.as_atom()
            try:
                di = 1 / d
            except ZeroDivisionError:
                raise Unsupported(f"inverse of a singular matrix {M} at {_where(e)}")
            A = qdom.adj(M)
            for i in range(n):
                for j in range(n):
                    out[idx + (i, j)] = A[i][j] * di
        return out

    def p_sqr(self, e, ins, p):
        """contract of jnp.linalg.qr (A2): ANY pair (Q, R) with R upper triangular and Q R = A.  The harness supplies the
        pair (symbolic Q and R) from which it built A, in call order, through `self.qr_queue`."""
        a = ins[0]
        n, k = a.shape[-2], a.shape[-1]
        qo, ro = obj(a.shape[:-2] + (n, min(n, k))), obj(a.shape[:-2] + (min(n, k), k))
        queue = self.__dict__.get("qr_queue")
        if queue is None:
            # no oracle supplied: the trivial instance of the contract, Q = A and R = I (used where only the operand matters)
            if n < k:
                raise Unsupported("qr of a wide matrix without a contract oracle")
            for idx in np.ndindex(a.shape[:-2]):
                qo[idx] = a[idx]
                for i in range(k):
                    for j in range(k):
                        ro[idx + (i, j)] = self.num(1 if i == j else 0)
            return [qo, ro]
        for idx in np.ndindex(a.shape[:-2]):
            if not queue:
                raise Unsupported("qr contract oracle exhausted")
            Qm, Rm = queue.pop(0)
            if Qm.shape != qo[idx].shape or Rm.shape != ro[idx].shape:
                raise Unsupported(f"qr oracle shapes {Qm.shape},{Rm.shape} do not match {qo[idx].shape},{ro[idx].shape}")
            for i in range(Rm.shape[0]):
                for j in range(i):
                    z = Rm[i, j]
                    if not (isinstance(z, Q) and z.iszero()) and not (hasattr(z, "_g_domain") and z.iszero()):
                        raise Unsupported("qr oracle R is not upper triangular")
            qo[idx] = Qm
            ro[idx] = Rm
        return [qo, ro]

    def p_seigh(self, e, ins, p):
        """contract of jnp.linalg.eigh (A2): ANY (w, V) with A V = V diag(w), V^T V = I, w ascending.  The harness supplies the pairs
        in call order (self.eigh_queue) and is responsible for them satisfying the contract for the operand it constructs; the
        operand itself is recorded as an IR probe."""
        a = ins[0]
        self.probes.setdefault("eigh", []).append(a)
        queue = self.__dict__.get("eigh_queue")
        if not queue:
            raise Unsupported("eigh without a contract oracle")
        if a.ndim != 2:
            raise Unsupported("batched eigh")
        w, V = queue.pop(0)
        return [w, V]

    def p_sort(self, e, ins, p):
        # concrete keys only (the eigenvalue oracles are concrete ascending numbers)
        if p.get("num_keys", 1) != 1 or ins[0].ndim != 1:
            raise Unsupported("sort: only 1-D single-key sorts")
        keys = []
        for x in ins[0]:
            x = Q.lift(x) if not isinstance(x, (int, bool)) else x
            if isinstance(x, Q):
                if not x.isconst():
                    raise Unsupported("sort of symbolic keys")
                x = x.c[0]
            keys.append(x)
        order = sorted(range(len(keys)), key=lambda i: (keys[i], i))
        return [np.array([op[i] for i in order], dtype=object) for op in ins]

    def p_sadj(self, e, ins, p):
        a = ins[0]
        out = obj(a.shape)
        n = a.shape[-1]
        for idx in np.ndindex(a.shape[:-2]):
            A = qdom.adj(a[idx].tolist()) if n > 1 else [[self.num(1)]]
            for i in range(n):
                for j in range(n):
                    out[idx + (i, j)] = A[i][j]
        return out

    # PRNG markers: keys are opaque tokens; random numbers are opaque atoms determined by (key, position)
    def _keyid(self, k):
        flat = tuple(k.reshape(-1).tolist())
        if all(isinstance(x, KeyTok) for x in flat):
            return flat
        return tuple(("seed", int(x)) if not isinstance(x, KeyTok) else x for x in flat)

    def p_srand_split(self, e, ins, p):
        kid = self._keyid(ins[0])
        num = p["num"]
        out = obj((num,) + ins[0].shape)
        for n_ in range(num):
            for idx in np.ndindex(ins[0].shape):
                out[(n_,) + idx] = KeyTok((kid, n_) + idx)
        return out

    def _rand(self, name, e, ins, p, contract):
        kid = self._keyid(ins[0])
        shape = tuple(p["shape"])
        out = obj(shape)
        cache = self.__dict__.setdefault("_rand_cache", {})
        for idx in np.ndindex(shape):
            key = (name, kid, idx)
            if key not in cache:
                k = qdom.ATOMS.opaque(f"{name}", is_real=True)
                re = qdom.tz(qdom.ATOMS.sym[k][0])
                qdom.ATOMS.facts[k] = contract(re)
                cache[key] = Q(1, {k: 1})
                self.__dict__.setdefault("rand_atoms", []).append((name, kid, idx, k))
            out[idx] = self.wrap(cache[key])
        return out

    def p_srand_uniform(self, e, ins, p):
        return self._rand("uniform", e, ins, p, lambda r: [r >= 0, r < 1])

    def p_srand_normal(self, e, ins, p):
        return self._rand("normal", e, ins, p, lambda r: [])

    def p_sexpm(self, e, ins, p):
        a = ins[0]
        s = a.reshape(-1)[0] if a.size else None
        if s is None or not hasattr(s, "_g_domain"):
            # Q domain: the matrix exponential is uninterpreted; equal argument matrices give the same matrix of atoms (A3)
            cache = self.__dict__.setdefault("_expm_cache", {})
            out = obj(a.shape)
            n = a.shape[-1]
            if qdom.NUMERIC[0] and all(Q.lift(x).isconst() for x in a.reshape(-1)):
                import scipy.linalg
                for idx in np.ndindex(a.shape[:-2]):
                    M = np.array([[complex(float(x.c[0]), float(x.c[1])) for x in row] for row in a[idx]])
                    E = scipy.linalg.expm(M)
                    out[idx] = self.lit(E if np.iscomplexobj(M) and np.abs(M.imag).max() > 0 else E.real)
                return out
            for idx in np.ndindex(a.shape[:-2]):
                key = tuple(qdom.q_key(x) for x in a[idx].reshape(-1))
                if key not in cache:
                    real = all(Q.lift(x).isreal() for x in a[idx].reshape(-1))
                    M = obj((n, n))
                    for i in range(n):
                        for j in range(n):
                            M[i, j] = Q(1, {qdom.ATOMS.opaque(f"expm[{i},{j}]", is_real=real): 1})
                    cache[key] = M
                out[idx] = cache[key]
            return out
        out = obj(a.shape)
        n = a.shape[-1]
        for idx in np.ndindex(a.shape[:-2]):
            out[idx] = s.expm(a[idx])
        return out

    # control flow ---------------------------------------------------------------------------
    def p_scan(self, e, ins, p):
        cj = p["jaxpr"]
        L = p["length"]
        if "ft_in" in p:
            c_, k_, x_ = [list(t) for t in p["ft_in"].update(list(range(len(ins)))).unpack()]
            nc, ncar = len(c_), len(k_)
            if c_ + k_ + x_ != list(range(len(ins))):
                raise Unsupported("scan operand order")
        else:
            nc, ncar = p["num_consts"], p["num_carry"]
        consts = ins[:nc]
        carry = list(ins[nc:nc + ncar])
        xs = ins[nc + ncar:]
        ys = None
        rng = range(L - 1, -1, -1) if p["reverse"] else range(L)
        cc = [self.lit(c) for c in cj.consts]
        for t in rng:
            if self.scan_hook is not None:  # inductive cut points: a harness may replace the carry by an arbitrary valid state
                r = self.scan_hook(e, "before", t, carry, (nc, ncar))
                if r is not None:
                    carry = list(r)
            out = self.eval(cj.jaxpr, cc, list(consts) + carry + [_as_arr(x[t]) for x in xs])
            carry = out[:ncar]
            if self.scan_hook is not None:
                r = self.scan_hook(e, "after", t, carry, (nc, ncar))
                if r is not None:
                    carry = list(r)
            y = out[ncar:]
            if ys is None:
                ys = [[None] * L for _ in y]
            for k, v in enumerate(y):
                ys[k][t] = v
        nys = len(e.outvars) - ncar
        if ys is None:
            ys = [[] for _ in range(nys)]
        stacked = []
        for k, col in enumerate(ys):
            if L:
                stacked.append(np.stack(col))
            else:
                stacked.append(obj(tuple(e.outvars[ncar + k].aval.shape)))
        return carry + stacked

    def p_platform_index(self, e, ins, p):
        # lax.platform_dependent: index of the branch for the platform the checks (and the test-suite) run on: cpu
        plats = p["platforms"]
        for i, ps in enumerate(plats):
            if ps is not None and "cpu" in ps:
                return np.array(i, dtype=object).reshape(())
        for i, ps in enumerate(plats):
            if ps is None:
                return np.array(i, dtype=object).reshape(())
        raise Unsupported("platform_index without a cpu / default branch")

    def p_cond(self, e, ins, p):
        branches = p["branches"]
        idx = ins[0][()]
        if isinstance(idx, SB):
            idx = int(bool(idx))
        if isinstance(idx, bool):
            idx = int(idx)
        idx = max(0, min(int(idx), len(branches) - 1))
        br = branches[idx]
        return self.eval(br.jaxpr, [self.lit(c) for c in br.consts], ins[1:])

    def p_while(self, e, ins, p):
        raise Unsupported("while loop (unbounded)")


def _as_arr(v):
    if isinstance(v, np.ndarray) and v.dtype == object:
        return v
    o = obj(())
    o[()] = v
    return o


def arr(shape, fn):
    o = obj(shape)
    for idx in np.ndindex(tuple(shape)):
        o[idx] = fn(idx)
    return o


def to_obj(x, wrap=None):
    """concrete numpy/jax array or nested list -> object array of Q constants (exact)"""
    it = Interp(wrap)
    return it.lit(np.asarray(x))
