"""F domain: IEEE-754 binary64 execution of the real-valued data path of a traced jaxpr (z3 QF_FP).

Real float64 arithmetic that the property talks about (comparisons, selects, isnan guards, a few
multiplications / additions / divisions) is modelled bit-exactly with z3 floating-point terms (RNE).
Everything else - complex arithmetic, linear algebra, transcendental functions, gathers of walker
matrices - is *havocked*: its result is an arbitrary double (any NaN, +-inf, subnormal) constrained only
by the IEEE contract of the producing primitive (|z| >= 0 or NaN, cos in [-1,1] or NaN, exp >= 0 or NaN ...).
A verdict `unsat` therefore holds for every value those computations could ever produce ("hostile
parameters, injected extreme fields"); a `sat` is a candidate that must be realised by concrete inputs
and replayed on the real code before it is reported.
"""
import math

import numpy as np
import jax
import jax.numpy as jnp
import jax.extend.core as jcore
import z3

F64 = z3.Float64()
RM = z3.RNE()


class Opaque:
    def __repr__(self):
        return "OPAQUE"


OPAQUE = Opaque()


def fv(x):
    return z3.FPVal(float(x), F64)


def is_fp(x):
    return z3.is_expr(x) and z3.is_fp(x)


def obj(shape):
    return np.empty(shape, dtype=object)


def fill(shape, v):
    o = obj(shape)
    for idx in np.ndindex(tuple(shape)):
        o[idx] = v
    return o


def vec(f, *arrs):
    arrs = np.broadcast_arrays(*[np.asarray(a, dtype=object) for a in arrs])
    out = obj(arrs[0].shape)
    for idx in np.ndindex(out.shape):
        out[idx] = f(*[a[idx] for a in arrs])
    return out


def isfloat(dt):
    try:
        return np.issubdtype(dt, np.floating)
    except TypeError:  # extended dtypes (PRNG keys)
        return False


def iscomplex(dt):
    try:
        return np.issubdtype(dt, np.complexfloating)
    except TypeError:
        return False


def tf(x):
    """python number / z3 Int -> FP term"""
    if is_fp(x):
        return x
    if isinstance(x, (int, float, np.floating, np.integer)) and not isinstance(x, bool):
        return fv(x)
    if z3.is_expr(x) and z3.is_int(x):
        return z3.fpToFP(RM, z3.ToReal(x), F64)
    if isinstance(x, bool):
        return fv(1.0 if x else 0.0)
    if z3.is_expr(x) and z3.is_bool(x):
        return z3.If(x, fv(1.0), fv(0.0))
    raise TypeError(f"cannot convert {type(x)} to FP")


def tb(x):
    if isinstance(x, (bool, np.bool_)):
        return z3.BoolVal(bool(x))
    return x


CONTRACTS = {
    "abs": lambda v: z3.Or(z3.fpIsNaN(v), z3.fpGEQ(v, fv(0.0))),
    "cos": lambda v: z3.Or(z3.fpIsNaN(v), z3.And(z3.fpGEQ(v, fv(-1.0)), z3.fpLEQ(v, fv(1.0)))),
    "sin": lambda v: z3.Or(z3.fpIsNaN(v), z3.And(z3.fpGEQ(v, fv(-1.0)), z3.fpLEQ(v, fv(1.0)))),
    "erf": lambda v: z3.Or(z3.fpIsNaN(v), z3.And(z3.fpGEQ(v, fv(-1.0)), z3.fpLEQ(v, fv(1.0)))),
    "exp": lambda v: z3.Or(z3.fpIsNaN(v), z3.fpGEQ(v, fv(0.0))),
    "acosh": lambda v: z3.Or(z3.fpIsNaN(v), z3.fpGEQ(v, fv(0.0))),
    "atan2": lambda v: z3.Or(z3.fpIsNaN(v), z3.And(z3.fpGEQ(v, fv(-3.2)), z3.fpLEQ(v, fv(3.2)))),
    "sqrt": lambda v: z3.Or(z3.fpIsNaN(v), z3.fpGEQ(v, fv(0.0))),
}

STRUCT = {"reshape", "transpose", "slice", "squeeze", "broadcast_in_dim", "concatenate", "rev", "copy", "copy_p",
          "expand_dims", "pad", "split", "stack", "unstack"}
CALLS = {"jit", "pjit", "closed_call", "core_call", "remat", "checkpoint", "custom_jvp_call", "custom_vjp_call", "remat2"}


class FUnsupported(Exception):
    pass


class FInterp:
    def __init__(self, havoc_calls=(), tag=""):
        self.constraints = []
        self.targets = {}  # constraint ast id -> the term (havocked value or uninterpreted application) the constraint is ABOUT (for slicing)
        self.havoc_calls = set(havoc_calls)
        self.n_havoc = 0
        self.havoc_log = {}
        self.havocs = {}
        self.tag = tag
        self.count = {}
        self.modelled = {}
        self.uf_apps = {}
        self.log_apps = []
        self.exact = False
        self.uf_add = False  # sums of two symbolic doubles as an uninterpreted function with verified lemma instances (see add_lemmas)

    def _about(self, target, constraint):
        self.constraints.append(constraint)
        self.targets[constraint.get_id()] = target

    # ---- fresh values ------------------------------------------------------------------
    def havoc(self, aval, why, contract=None):
        dt = aval.dtype
        shape = tuple(aval.shape)
        if iscomplex(dt):
            return fill(shape, OPAQUE)
        if isfloat(dt):
            o = obj(shape)
            for idx in np.ndindex(shape):
                self.n_havoc += 1
                v = z3.FP(f"hv{self.tag}_{why}_{self.n_havoc}", F64)
                if contract is not None:
                    self._about(v, contract(v))
                o[idx] = v
            self.havoc_log[why] = self.havoc_log.get(why, 0) + int(np.prod(shape, dtype=int))
            self.havocs.setdefault(why, []).append(o)
            return o
        if dt == bool:
            o = obj(shape)
            for idx in np.ndindex(shape):
                self.n_havoc += 1
                o[idx] = z3.Bool(f"hb{self.tag}_{why}_{self.n_havoc}")
            return o
        return fill(shape, OPAQUE)

    def lit(self, x):
        a = np.asarray(x)
        o = obj(a.shape)
        for idx in np.ndindex(a.shape):
            v = a[idx]
            if iscomplex(a.dtype):
                o[idx] = OPAQUE
            elif isfloat(a.dtype):
                o[idx] = fv(float(v))
            elif a.dtype == bool:
                o[idx] = bool(v)
            elif np.issubdtype(a.dtype, np.integer):
                o[idx] = int(v)
            else:
                o[idx] = OPAQUE
        return o

    # ---- driver ------------------------------------------------------------------------
    def run(self, closed, args):
        return self.eval(closed.jaxpr, [self.lit(c) for c in closed.consts], args)

    def eval(self, jaxpr, consts, args):
        env = {}

        def read(v):
            if isinstance(v, jcore.Literal):
                return self.lit(v.val)
            return env[v]

        for v, c in zip(jaxpr.constvars, consts):
            env[v] = c
        assert len(jaxpr.invars) == len(args)
        for v, a in zip(jaxpr.invars, args):
            env[v] = a
        for e in jaxpr.eqns:
            ins = [read(v) for v in e.invars]
            outs = self.apply(e, ins)
            if not e.primitive.multiple_results:
                outs = [outs]
            for v, o in zip(e.outvars, outs):
                if not isinstance(o, np.ndarray) or o.dtype != object:
                    o2 = obj(np.shape(o))
                    o2[...] = o
                    o = o2
                if o.shape != tuple(v.aval.shape):
                    raise FUnsupported(f"{e.primitive.name}: shape {o.shape} != {v.aval.shape}")
                env[v] = o
        return [read(v) for v in jaxpr.outvars]

    def any_opaque(self, ins):
        for a in ins:
            for x in a.reshape(-1):
                if x is OPAQUE:
                    return True
        return False

    def struct(self, e, ins, which=None):
        pool = []
        idins = []
        for k, a in enumerate(ins):
            if which is not None and k not in which:
                idins.append(np.array([int(x) for x in a.reshape(-1)], dtype=e.invars[k].aval.dtype).reshape(a.shape))
                continue
            ids = np.arange(len(pool), len(pool) + a.size, dtype=np.int64).reshape(a.shape)
            pool.extend(a.reshape(-1).tolist())
            idins.append(ids)
        with jax.ensure_compile_time_eval():
            res = e.primitive.bind(*[jnp.asarray(x) for x in idins], **e.params)
        multi = e.primitive.multiple_results
        outs = []
        for r in res if multi else [res]:
            r = np.asarray(r)
            o = obj(r.shape)
            of = o.reshape(-1)
            for i, k in enumerate(r.reshape(-1)):
                of[i] = pool[int(k)]
            outs.append(of.reshape(r.shape))
        return outs if multi else outs[0]

    def apply(self, e, ins):
        n = e.primitive.name
        p = e.params
        self.count[n] = self.count.get(n, 0) + 1
        if n in CALLS:
            name = p.get("name")
            if name in self.havoc_calls:
                return [self.havoc(v.aval, f"call:{name}") for v in e.outvars]
            cj = p.get("jaxpr") or p.get("call_jaxpr") or p.get("fun_jaxpr")
            if hasattr(cj, "jaxpr"):
                return self.eval(cj.jaxpr, [self.lit(c) for c in cj.consts], ins)
            return self.eval(cj, [], ins)
        if n in STRUCT:
            return self.struct(e, ins)
        fn = getattr(self, "p_" + n.replace("-", "_"), None)
        outs_complex = any(iscomplex(v.aval.dtype) for v in e.outvars)
        if fn is not None and not outs_complex:
            try:
                r = fn(e, ins, p)
                if r is not NotImplemented:
                    self.modelled[n] = self.modelled.get(n, 0) + 1
                    return r
            except _Fallback:
                pass
        # not modelled: havoc every output under the primitive's IEEE contract
        outs = [self.havoc(v.aval, n, CONTRACTS.get(n)) for v in e.outvars]
        return outs if e.primitive.multiple_results else outs[0]

    # ---- modelled primitives --------------------------------------------------------------
    def _num2(self, e, ins, fop, iop=None):
        if self.any_opaque(ins):
            raise _Fallback()
        dt = e.outvars[0].aval.dtype
        if isfloat(dt):
            return vec(lambda a, b: fop(tf(a), tf(b)), ins[0], ins[1])
        if iop is None:
            raise _Fallback()
        return vec(iop, ins[0], ins[1])

    def fadd(self, a, b):
        if self.exact or not self.uf_add or z3.is_fp_value(a) or z3.is_fp_value(b):
            return z3.fpAdd(RM, a, b)
        r = ADDF(a, b)
        for c_ in add_lemmas(r, a, b).values():
            self._about(r, c_)
        self.uf_apps["add"] = self.uf_apps.get("add", 0) + 1
        return r

    def p_add(self, e, ins, p):
        return self._num2(e, ins, self.fadd, lambda a, b: a + b)

    p_add_any = p_add

    def p_sub(self, e, ins, p):
        return self._num2(e, ins, lambda a, b: z3.fpSub(RM, a, b), lambda a, b: a - b)

    # Products / quotients of two *symbolic* doubles are modelled as uninterpreted functions constrained by lemma
    # instances (sign, NaN, zero, boundedness).  Each lemma is itself discharged once against z3's exact fpMul / fpDiv
    # (`verify_lemmas`), so the abstraction is sound; it keeps 53x53-bit multipliers out of the main queries.
    # Multiplication / division by a numeral stays exact.
    def fmul(self, a, b):
        if self.exact or z3.is_fp_value(a) or z3.is_fp_value(b) or z3.is_fprm_value(a):
            return z3.fpMul(RM, a, b)
        r = MULF(a, b)
        for c_ in mul_lemmas(r, a, b).values():
            self._about(r, c_)
        self.uf_apps["mul"] = self.uf_apps.get("mul", 0) + 1
        return r

    def fdiv(self, a, b):
        if self.exact or z3.is_fp_value(b):
            return z3.fpDiv(RM, a, b)
        r = DIVF(a, b)
        for c_ in div_lemmas(r, a, b).values():
            self._about(r, c_)
        self.uf_apps["div"] = self.uf_apps.get("div", 0) + 1
        return r

    def p_mul(self, e, ins, p):
        return self._num2(e, ins, self.fmul, lambda a, b: a * b)

    def p_div(self, e, ins, p):
        return self._num2(e, ins, self.fdiv, None)

    def p_max(self, e, ins, p):
        # jnp.maximum propagates NaN
        def f(a, b):
            return z3.If(z3.Or(z3.fpIsNaN(a), z3.fpIsNaN(b)), z3.fpNaN(F64), z3.If(z3.fpGEQ(a, b), a, b))
        return self._num2(e, ins, f, max)

    def p_min(self, e, ins, p):
        def f(a, b):
            return z3.If(z3.Or(z3.fpIsNaN(a), z3.fpIsNaN(b)), z3.fpNaN(F64), z3.If(z3.fpLEQ(a, b), a, b))
        return self._num2(e, ins, f, min)

    def p_neg(self, e, ins, p):
        if self.any_opaque(ins) or not isfloat(e.outvars[0].aval.dtype):
            raise _Fallback()
        return vec(lambda a: z3.fpNeg(tf(a)), ins[0])

    def p_abs(self, e, ins, p):
        if self.any_opaque(ins) or not isfloat(e.invars[0].aval.dtype):
            raise _Fallback()
        return vec(lambda a: z3.fpAbs(tf(a)), ins[0])

    def p_sqrt(self, e, ins, p):
        if self.any_opaque(ins) or not isfloat(e.invars[0].aval.dtype):
            raise _Fallback()
        return vec(lambda a: z3.fpSqrt(RM, tf(a)), ins[0])

    def p_log(self, e, ins, p):
        """havoc with an input-dependent contract: log of a finite positive double is finite; log(+-0) = -inf;
        log(x<0) = NaN; log(+inf) = +inf; log(NaN) = NaN"""
        if self.any_opaque(ins) or not isfloat(e.invars[0].aval.dtype):
            raise _Fallback()

        def f(x):
            x = tf(x)
            self.n_havoc += 1
            v = z3.FP(f"hv{self.tag}_log_{self.n_havoc}", F64)
            self.havoc_log["log"] = self.havoc_log.get("log", 0) + 1
            self._about(v, z3.Implies(z3.And(finite(x), z3.fpGT(x, fv(0.0))), z3.And(finite(v), z3.fpGEQ(v, fv(-746.0)), z3.fpLEQ(v, fv(710.0)))))
            self._about(v, z3.Implies(z3.fpIsZero(x), z3.And(z3.fpIsInf(v), z3.fpIsNegative(v))))
            self._about(v, z3.Implies(z3.Or(z3.fpIsNaN(x), z3.fpLT(x, fv(0.0))), z3.fpIsNaN(v)))
            self._about(v, z3.Implies(z3.And(z3.fpIsInf(x), z3.fpIsPositive(x)), z3.And(z3.fpIsInf(v), z3.fpIsPositive(v))))
            self.log_apps.append((x, v))
            return v
        return vec(f, ins[0])

    def p_exp(self, e, ins, p):
        """havoc: exp of any double is NaN (iff the argument is) or >= 0; exp(finite) may overflow to +inf or underflow to 0"""
        if self.any_opaque(ins) or not isfloat(e.invars[0].aval.dtype):
            raise _Fallback()

        def f(x):
            x = tf(x)
            self.n_havoc += 1
            v = z3.FP(f"hv{self.tag}_exp_{self.n_havoc}", F64)
            self.havoc_log["exp"] = self.havoc_log.get("exp", 0) + 1
            self._about(v, z3.If(z3.fpIsNaN(x), z3.fpIsNaN(v), z3.And(z3.Not(z3.fpIsNaN(v)), z3.fpGEQ(v, fv(0.0)))))
            # libm facts (A3): exp(+-600) = 3.8e260 / 2.7e-261;  exp(+inf) = +inf;  exp(-inf) = +0
            self._about(v, z3.Implies(z3.And(finite(x), z3.fpGEQ(x, fv(-600.0)), z3.fpLEQ(x, fv(600.0))),
                                               z3.And(finite(v), z3.fpGEQ(v, fv(1e-261)), z3.fpLEQ(v, fv(1e261)))))
            self._about(v, z3.Implies(z3.And(z3.fpIsInf(x), z3.fpIsPositive(x)), z3.And(z3.fpIsInf(v), z3.fpIsPositive(v))))
            self._about(v, z3.Implies(z3.And(z3.fpIsInf(x), z3.fpIsNegative(x)), z3.fpIsZero(v)))
            return v
        return vec(f, ins[0])

    def p_integer_pow(self, e, ins, p):
        if self.any_opaque(ins) or not isfloat(e.invars[0].aval.dtype) or p["y"] != 2:
            raise _Fallback()
        return vec(lambda a: z3.fpMul(RM, tf(a), tf(a)), ins[0])

    def p_square(self, e, ins, p):
        if self.any_opaque(ins) or not isfloat(e.invars[0].aval.dtype):
            raise _Fallback()
        return vec(lambda a: z3.fpMul(RM, tf(a), tf(a)), ins[0])

    def _cmp(self, name):
        fops = {"lt": z3.fpLT, "le": z3.fpLEQ, "gt": z3.fpGT, "ge": z3.fpGEQ, "eq": z3.fpEQ,
                "ne": lambda a, b: z3.Not(z3.fpEQ(a, b))}
        import operator
        iops = {"lt": operator.lt, "le": operator.le, "gt": operator.gt, "ge": operator.ge, "eq": operator.eq, "ne": operator.ne}

        def f(e, ins, p):
            if self.any_opaque(ins):
                raise _Fallback()
            dt = e.invars[0].aval.dtype
            if isfloat(dt):
                return vec(lambda a, b: fops[name](tf(a), tf(b)), ins[0], ins[1])
            if dt == bool:
                if name == "eq":
                    return vec(lambda a, b: tb(a) == tb(b), ins[0], ins[1])
                if name == "ne":
                    return vec(lambda a, b: tb(a) != tb(b), ins[0], ins[1])
                raise _Fallback()
            return vec(lambda a, b: iops[name](a, b), ins[0], ins[1])
        return f

    def p_lt(self, e, ins, p):
        return self._cmp("lt")(e, ins, p)

    def p_le(self, e, ins, p):
        return self._cmp("le")(e, ins, p)

    def p_gt(self, e, ins, p):
        return self._cmp("gt")(e, ins, p)

    def p_ge(self, e, ins, p):
        return self._cmp("ge")(e, ins, p)

    def p_eq(self, e, ins, p):
        return self._cmp("eq")(e, ins, p)

    def p_ne(self, e, ins, p):
        return self._cmp("ne")(e, ins, p)

    def p_is_finite(self, e, ins, p):
        if self.any_opaque(ins):
            raise _Fallback()
        return vec(lambda a: z3.Not(z3.Or(z3.fpIsNaN(tf(a)), z3.fpIsInf(tf(a)))), ins[0])

    def p_and(self, e, ins, p):
        if self.any_opaque(ins) or e.outvars[0].aval.dtype != bool:
            raise _Fallback()
        return vec(lambda a, b: z3.And(tb(a), tb(b)), ins[0], ins[1])

    def p_or(self, e, ins, p):
        if self.any_opaque(ins) or e.outvars[0].aval.dtype != bool:
            raise _Fallback()
        return vec(lambda a, b: z3.Or(tb(a), tb(b)), ins[0], ins[1])

    def p_not(self, e, ins, p):
        if self.any_opaque(ins) or e.outvars[0].aval.dtype != bool:
            raise _Fallback()
        return vec(lambda a: z3.Not(tb(a)), ins[0])

    def p_select_n(self, e, ins, p):
        pred, cases = ins[0], ins[1:]
        dt = e.outvars[0].aval.dtype
        if iscomplex(dt):
            raise _Fallback()
        if len(cases) != 2:
            raise _Fallback()
        for a in [pred]:
            if any(x is OPAQUE for x in a.reshape(-1)):
                raise _Fallback()

        def f(c, a, b):  # select_n: False -> cases[0], True -> cases[1]
            if isinstance(c, (bool, np.bool_)):
                return b if c else a
            if a is OPAQUE or b is OPAQUE:
                raise _Fallback()
            if isfloat(dt):
                return z3.If(c, tf(b), tf(a))
            if dt == bool:
                return z3.If(c, tb(b), tb(a))
            if isinstance(a, int) and isinstance(b, int):
                return z3.If(c, z3.IntVal(b), z3.IntVal(a))
            return z3.If(c, _ti(b), _ti(a))
        return vec(f, np.broadcast_to(pred, cases[0].shape), cases[0], cases[1])

    def p_convert_element_type(self, e, ins, p):
        src, dst = e.invars[0].aval.dtype, e.outvars[0].aval.dtype
        if self.any_opaque(ins):
            raise _Fallback()
        if isfloat(dst):
            if isfloat(src) and np.dtype(src).itemsize >= np.dtype(dst).itemsize and np.dtype(dst) == np.float64:
                return ins[0]
            if isfloat(src):
                raise _Fallback()
            return vec(tf, ins[0])
        if dst == bool:
            raise _Fallback()
        if np.issubdtype(dst, np.integer):
            if src == bool:
                return vec(lambda b: (int(b) if isinstance(b, (bool, np.bool_)) else z3.If(b, z3.IntVal(1), z3.IntVal(0))), ins[0])
            if np.issubdtype(src, np.integer):
                return ins[0]
        raise _Fallback()

    def _fold(self, e, ins, p, fop, iop, init):
        if self.any_opaque(ins):
            raise _Fallback()
        a = ins[0]
        axes = tuple(sorted(p["axes"]))
        dt = e.outvars[0].aval.dtype
        moved = np.moveaxis(a, axes, range(len(axes))) if axes else a
        rest = moved.shape[len(axes):]
        flat = moved.reshape((-1,) + rest)
        out = obj(rest)
        for idx in np.ndindex(rest):
            acc = None
            for k in range(flat.shape[0]):
                v = flat[(k,) + idx]
                if isfloat(dt):
                    acc = tf(v) if acc is None else fop(acc, tf(v))
                else:
                    acc = v if acc is None else iop(acc, v)
            out[idx] = acc if acc is not None else init
        return out

    def p_reduce_sum(self, e, ins, p):
        # sequential left fold; XLA may associate differently - the invariants checked (finiteness, sign, NaN) hold for any
        # association order only if they hold for this one AND no cancellation is involved: weights are >= 0 here.
        return self._fold(e, ins, p, self.fadd, lambda a, b: _ti(a) + _ti(b), fv(0.0))

    def p_reduce_max(self, e, ins, p):
        def f(a, b):
            return z3.If(z3.Or(z3.fpIsNaN(a), z3.fpIsNaN(b)), z3.fpNaN(F64), z3.If(z3.fpGEQ(a, b), a, b))
        return self._fold(e, ins, p, f, max, None)

    def p_iota(self, e, ins, p):
        with jax.ensure_compile_time_eval():
            a = np.asarray(jax.lax.broadcasted_iota(p["dtype"], p["shape"], p["dimension"]))
        return self.lit(a)

    def p_stop_gradient(self, e, ins, p):
        return ins[0]

    def p_scan(self, e, ins, p):
        cj = p["jaxpr"]
        L = p["length"]
        if "ft_in" in p:
            c_, k_, x_ = [list(t) for t in p["ft_in"].update(list(range(len(ins)))).unpack()]
            nc, ncar = len(c_), len(k_)
        else:
            nc, ncar = p["num_consts"], p["num_carry"]
        consts = ins[:nc]
        carry = list(ins[nc:nc + ncar])
        xs = ins[nc + ncar:]
        ys = None
        rng = range(L - 1, -1, -1) if p["reverse"] else range(L)
        cc = [self.lit(c) for c in cj.consts]
        for t in rng:
            xs_t = []
            for x in xs:
                v = x[t]
                if not (isinstance(v, np.ndarray) and v.dtype == object):
                    o = obj(())
                    o[()] = v
                    v = o
                xs_t.append(v)
            out = self.eval(cj.jaxpr, cc, list(consts) + carry + xs_t)
            carry = out[:ncar]
            y = out[ncar:]
            if ys is None:
                ys = [[None] * L for _ in y]
            for k, v in enumerate(y):
                ys[k][t] = v
        stacked = []
        for k, col in enumerate(ys or []):
            stacked.append(np.stack(col) if L else obj(tuple(e.outvars[ncar + k].aval.shape)))
        return carry + stacked

    def p_gather(self, e, ins, p):
        # gathers with concrete indices are data movement; symbolic / opaque indices -> havoc
        try:
            return self.struct(e, ins, which={0})
        except Exception:
            raise _Fallback()

    def p_dynamic_slice(self, e, ins, p):
        try:
            return self.struct(e, ins, which={0})
        except Exception:
            raise _Fallback()

    def p_dynamic_update_slice(self, e, ins, p):
        try:
            return self.struct(e, ins, which={0, 1})
        except Exception:
            raise _Fallback()

    def p_scatter(self, e, ins, p):
        try:
            return self.struct(e, ins, which={0, 2})
        except Exception:
            raise _Fallback()


class _Fallback(Exception):
    pass


MULF = z3.Function("mulF", F64, F64, F64)
DIVF = z3.Function("divF", F64, F64, F64)


def mul_lemmas(r, a, b):
    nn = z3.And(z3.Not(z3.fpIsNaN(a)), z3.Not(z3.fpIsNaN(b)))
    return {
        "mul.nonneg": z3.Implies(z3.And(nn, z3.fpGEQ(a, fv(0.0)), z3.fpGEQ(b, fv(0.0)), z3.Not(z3.And(z3.fpIsZero(a), z3.fpIsInf(b))),
                                        z3.Not(z3.And(z3.fpIsInf(a), z3.fpIsZero(b)))),
                                 z3.And(z3.Not(z3.fpIsNaN(r)), z3.fpGEQ(r, fv(0.0)))),
        "mul.nan": z3.Implies(z3.Or(z3.fpIsNaN(a), z3.fpIsNaN(b)), z3.fpIsNaN(r)),
        "mul.zero": z3.Implies(z3.Or(z3.And(z3.fpIsZero(a), finite(b)), z3.And(z3.fpIsZero(b), finite(a))), z3.fpIsZero(r)),
        "mul.bounded": z3.Implies(z3.And(finite(a), finite(b), z3.fpLEQ(z3.fpAbs(a), fv(100.0)), z3.fpLEQ(z3.fpAbs(b), fv(100.0))),
                                  z3.And(finite(r), z3.fpLEQ(z3.fpAbs(r), fv(10000.0)))),
        "mul.lower": z3.Implies(z3.And(finite(a), finite(b), z3.fpGEQ(a, fv(1e-3)), z3.fpGEQ(b, fv(1e-300))), z3.fpGEQ(r, fv(1e-304))),
        "mul.lower2": z3.Implies(z3.And(finite(a), finite(b), z3.fpGEQ(b, fv(1e-3)), z3.fpGEQ(a, fv(1e-300))), z3.fpGEQ(r, fv(1e-304))),
        "mul.lower3": z3.Implies(z3.And(finite(a), finite(b), z3.fpGEQ(a, fv(1e-8)), z3.fpGEQ(b, fv(1e-261))), z3.fpGEQ(r, fv(1e-270))),
        "mul.lower4": z3.Implies(z3.And(finite(a), finite(b), z3.fpGEQ(b, fv(1e-8)), z3.fpGEQ(a, fv(1e-261))), z3.fpGEQ(r, fv(1e-270))),
        "mul.inf": z3.Implies(z3.And(nn, z3.Or(z3.fpIsInf(a), z3.fpIsInf(b)), z3.Not(z3.fpIsZero(a)), z3.Not(z3.fpIsZero(b))), z3.fpIsInf(r)),
        "mul.zero_inf": z3.Implies(z3.Or(z3.And(z3.fpIsZero(a), z3.fpIsInf(b)), z3.And(z3.fpIsInf(a), z3.fpIsZero(b))), z3.fpIsNaN(r)),
    }


ADDF = z3.Function("addF", F64, F64, F64)


def add_lemmas(r, a, b):
    nn = z3.And(z3.Not(z3.fpIsNaN(a)), z3.Not(z3.fpIsNaN(b)))
    pos = z3.And(nn, z3.fpGEQ(a, fv(0.0)), z3.fpGEQ(b, fv(0.0)))
    return {
        "add.nan": z3.Implies(z3.Or(z3.fpIsNaN(a), z3.fpIsNaN(b)), z3.fpIsNaN(r)),
        "add.nonneg": z3.Implies(pos, z3.And(z3.Not(z3.fpIsNaN(r)), z3.fpGEQ(r, a), z3.fpGEQ(r, b))),
        "add.zero": z3.Implies(z3.And(z3.fpIsZero(a), z3.fpIsZero(b)), z3.fpIsZero(r)),
        "add.finite": z3.Implies(z3.And(finite(a), finite(b), z3.fpLEQ(z3.fpAbs(a), fv(1e300)), z3.fpLEQ(z3.fpAbs(b), fv(1e300))), finite(r)),
        "add.le200": z3.Implies(z3.And(pos, z3.fpLEQ(a, fv(100.0)), z3.fpLEQ(b, fv(100.0))), z3.fpLEQ(r, fv(200.0))),
        "add.inf": z3.Implies(z3.And(nn, z3.Or(z3.fpIsInf(a), z3.fpIsInf(b)), z3.Not(z3.And(z3.fpIsInf(a), z3.fpIsInf(b)))), z3.fpIsInf(r)),
    }


def div_lemmas(r, a, b):
    return {
        "div.nonneg": z3.Implies(z3.And(finite(a), finite(b), z3.fpGEQ(a, fv(0.0)), z3.fpGT(b, fv(0.0))),
                                 z3.And(z3.Not(z3.fpIsNaN(r)), z3.fpGEQ(r, fv(0.0)))),
        "div.le1": z3.Implies(z3.And(finite(a), finite(b), z3.fpGEQ(a, fv(0.0)), z3.fpGT(b, fv(0.0)), z3.fpLEQ(a, b)), z3.fpLEQ(r, fv(1.0))),
        "div.nan": z3.Implies(z3.Or(z3.fpIsNaN(a), z3.fpIsNaN(b)), z3.fpIsNaN(r)),
        "div.zero_zero": z3.Implies(z3.And(z3.fpIsZero(a), z3.fpIsZero(b)), z3.fpIsNaN(r)),
    }


_LEMMAS_OK = {}


def verify_lemmas(timeout_ms=120000, parallel=0):
    """discharge every lemma against the exact IEEE operation (QF_FP, one multiplier / divider / adder each); cached per process.
    parallel > 0: the queries are written out as SMT-LIB and decided by that many concurrent cvc5 processes."""
    if _LEMMAS_OK:
        return _LEMMAS_OK
    import time
    a, b = z3.FP("la", F64), z3.FP("lb", F64)
    if parallel and have_cvc5():
        import concurrent.futures as cf
        items = (list(mul_lemmas(z3.fpMul(RM, a, b), a, b).items()) + list(div_lemmas(z3.fpDiv(RM, a, b), a, b).items())
                 + list(add_lemmas(z3.fpAdd(RM, a, b), a, b).items()))
        texts = [(name, smt2_text([z3.Not(l)]).replace("QF_UFFP", "QF_FP")) for name, l in items]

        def one(t):
            t0 = time.time()
            return t[0], run_cvc5(t[1], timeout_ms), round(time.time() - t0, 2)
        with cf.ThreadPoolExecutor(max_workers=parallel) as pool:
            for name, r, secs in pool.map(one, texts):
                _LEMMAS_OK[name] = (r, secs)
        return _LEMMAS_OK
    for name, l in (list(mul_lemmas(z3.fpMul(RM, a, b), a, b).items()) + list(div_lemmas(z3.fpDiv(RM, a, b), a, b).items())
                    + list(add_lemmas(z3.fpAdd(RM, a, b), a, b).items())):
        s = z3.Solver()
        s.set("timeout", timeout_ms)
        s.add(z3.Not(l))
        t = time.time()
        r = str(s.check())
        _LEMMAS_OK[name] = (r, round(time.time() - t, 2))
    return _LEMMAS_OK


def _ti(x):
    if isinstance(x, (int, np.integer)) and not isinstance(x, bool):
        return z3.IntVal(int(x))
    if isinstance(x, (bool, np.bool_)):
        return z3.IntVal(int(x))
    return x


# ---- helpers for writing obligations -----------------------------------------------------------
def finite(v):
    return z3.Not(z3.Or(z3.fpIsNaN(v), z3.fpIsInf(v)))


def nonneg_finite(v):
    return z3.And(finite(v), z3.fpGEQ(v, fv(0.0)))


def fp_model_value(model, v):
    """z3 FP model value -> python float"""
    r = model.eval(v, model_completion=True)
    if z3.is_fp(r):
        if z3.is_fprm(r):
            return None
        s = str(r)
        if "NaN" in s:
            return float("nan")
        if "+oo" in s:
            return float("inf")
        if "-oo" in s:
            return float("-inf")
        try:
            return float(eval(s.replace("*(2**", "*(2.0**"))) if "**" in s else float(s)
        except Exception:
            try:
                return float(r.as_string())
            except Exception:
                return None
    return None


import threading

_SMT2_LOCK = threading.Lock()
CVC5_BIN = "/usr/bin/cvc5"
STATS = {"z3": 0, "cvc5": 0, "cvc5_s": 0.0}


def smt2_text(asserts):
    s = z3.Solver()
    s.add(*asserts)
    return "(set-logic QF_UFFP)\n" + s.to_smt2().replace("(set-info :status unknown)", "")


def run_cvc5(txt, timeout_ms):
    """the cvc5 binary on an SMT-LIB text (thread-safe: no z3 objects involved); returns 'sat' | 'unsat' | 'unknown'"""
    import os
    import subprocess
    import tempfile
    import time
    t0 = time.time()
    with tempfile.NamedTemporaryFile("w", suffix=".smt2", delete=False, dir=os.environ.get("VERIF_SCRATCH") or None) as fh:
        fh.write(txt)
        path = fh.name
    try:
        out = subprocess.run([CVC5_BIN, "--fp-exp", f"--tlimit={int(timeout_ms)}", path], capture_output=True, text=True, timeout=timeout_ms / 1000.0 + 30)
        lines = [ln.strip() for ln in out.stdout.splitlines() if ln.strip()]
        verdict = lines[0] if lines else "unknown"
        if "(error" in out.stdout or "error" in out.stderr.lower():
            verdict = "unknown"
    except Exception:
        verdict = "unknown"
    finally:
        try:
            os.unlink(path)
        except OSError:
            pass
    STATS["cvc5"] += 1
    STATS["cvc5_s"] += time.time() - t0
    return verdict if verdict in ("sat", "unsat") else "unknown"


def have_cvc5():
    import os
    return os.path.exists(CVC5_BIN) and not os.environ.get("VERIF_NO_CVC5")


def check(asserts, timeout_ms=60000, z3_first_ms=8000):
    """portfolio: z3 (in process, short budget), then the cvc5 binary on the same SMT-LIB text for the remaining budget.  Measured here:
    mixed UF + FP queries on which z3 5.1 gives up after minutes are decided by cvc5 1.0.3 in seconds.  A `sat` from cvc5 carries no
    model into Python (None): F-domain candidates are confirmed by hostile concrete inputs, not by the model."""
    s = z3.Solver()
    cv = have_cvc5()
    budget = int(timeout_ms) if not cv else min(int(timeout_ms), int(z3_first_ms))
    s.add(*asserts)
    if budget > 0:
        s.set("timeout", budget)
        r = str(s.check())
        if r != "unknown" or not cv:
            STATS["z3"] += 1
            return r, (s.model() if r == "sat" else None)
    return run_cvc5(smt2_text(asserts), max(5000, int(timeout_ms) - budget)), None


def fp_to_float(r):
    """z3 FP numeral -> python float"""
    if z3.is_fp_value(r) if hasattr(z3, "is_fp_value") else True:
        try:
            if r.isNaN():
                return float("nan")
            if r.isInf():
                return float("-inf") if r.isNegative() else float("inf")
            sig = r.significand_as_long()
            exp = r.exponent_as_long(True)  # biased
            sign = -1.0 if r.sign() else 1.0
            if exp == 0:
                return sign * math.ldexp(sig, -1022 - 52)
            return sign * math.ldexp((1 << 52) + sig, exp - 1023 - 52)
        except Exception:
            pass
    return None


def eval_fp(term, pins):
    """evaluate an FP term with variables pinned to python floats (z3 substitute + simplify)"""
    subs = [(v, z3.FPVal(float(x), F64)) for v, x in pins.items()]
    t = z3.simplify(z3.substitute(term, *subs)) if subs else z3.simplify(term)
    if z3.is_fp(t) and z3.is_app(t) and t.num_args() <= 3 and not t.children() or z3.is_fp_value(t):
        return fp_to_float(t)
    # not a numeral yet: ask a solver for its value (all variables pinned -> unique)
    s = z3.Solver()
    r = z3.FP("__r", F64)
    s.add(r == t)
    if str(s.check()) == "sat":
        return fp_to_float(s.model().eval(r, model_completion=True))
    return None
