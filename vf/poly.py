"""Canonical sparse multivariate polynomials with exact rational coefficients.

The Q domain keeps its numerators in this normal form (sum of monomials) so that
(i) equal sub-terms are *syntactically* equal (atom merging / recognition need no side
query), and (ii) the solver receives  sum-of-monomials != sum-of-monomials  instead of a
deep DAG of products of sums, which z3's nlsat front end does not normalise within reach.
A monomial is a Python int with 8 bits of exponent per variable, so the product of two
monomials is an integer addition.
"""
from fractions import Fraction

import z3

BITS = 8
MASK = (1 << BITS) - 1


class PolyBudget(Exception):
    """a polynomial grew beyond the stated size budget: the obligation is reported inconclusive"""


MAX_TERMS = 1_500_000
MAX_PRODUCTS = 40_000_000


class Vars:
    def __init__(self):
        self.names = []
        self.index = {}
        self.z3 = []

    def get(self, name):
        i = self.index.get(name)
        if i is None:
            i = len(self.names)
            self.index[name] = i
            self.names.append(name)
            self.z3.append(z3.Real(name))
        return i


VARS = Vars()


def _norm(c):
    if isinstance(c, Fraction) and c.denominator == 1:
        return c.numerator
    return c


class P:
    __slots__ = ("d", "_key")

    def __init__(self, d=None):
        self.d = d if d is not None else {}
        self._key = None

    @staticmethod
    def var(name):
        return P({1 << (BITS * VARS.get(name)): 1})

    @staticmethod
    def const(c):
        c = _norm(Fraction(c))
        return P({0: c} if c != 0 else {})

    def is_zero(self):
        return not self.d

    def is_const(self):
        return not self.d or (len(self.d) == 1 and 0 in self.d)

    def const_value(self):
        return Fraction(self.d.get(0, 0))

    def key(self):
        if self._key is None:
            self._key = hash(frozenset(self.d.items())), len(self.d)
        return self._key

    def same(self, other):
        return self.d == other.d

    def __add__(a, b):
        if not isinstance(b, P):
            b = P.const(b)
        if len(a.d) < len(b.d):
            a, b = b, a
        d = dict(a.d)
        for m, c in b.d.items():
            v = d.get(m)
            if v is None:
                d[m] = c
            else:
                v = v + c
                if v == 0:
                    del d[m]
                else:
                    d[m] = _norm(v) if isinstance(v, Fraction) else v
        return P(d)

    __radd__ = __add__

    def __neg__(a):
        return P({m: -c for m, c in a.d.items()})

    def __sub__(a, b):
        if not isinstance(b, P):
            b = P.const(b)
        return a + (-b)

    def __rsub__(a, b):
        return P.const(b) + (-a)

    def scale(a, c):
        c = _norm(Fraction(c))
        if c == 0:
            return P()
        if c == 1:
            return a
        return P({m: _norm(v * c) if isinstance(c, Fraction) or isinstance(v, Fraction) else v * c for m, v in a.d.items()})

    def __mul__(a, b):
        if not isinstance(b, P):
            return a.scale(b)
        if len(a.d) < len(b.d):
            a, b = b, a
        if not b.d:
            return P()
        if len(b.d) == 1:
            (mb, cb), = b.d.items()
            if mb == 0:
                return a.scale(cb)
            if cb == 1:
                return P({m + mb: c for m, c in a.d.items()})
            return P({m + mb: _norm(c * cb) if isinstance(c, Fraction) or isinstance(cb, Fraction) else c * cb
                      for m, c in a.d.items()})
        if len(a.d) * len(b.d) > MAX_PRODUCTS:
            raise PolyBudget(f"polynomial product {len(a.d)} x {len(b.d)} terms exceeds the budget")
        d = {}
        get = d.get
        for mb, cb in b.d.items():
            for ma, ca in a.d.items():
                m = ma + mb
                v = get(m)
                t = ca * cb
                if v is None:
                    d[m] = t
                else:
                    d[m] = v + t
        if len(d) > MAX_TERMS:
            raise PolyBudget(f"polynomial with {len(d)} terms exceeds the budget")
        return P({m: (_norm(c) if isinstance(c, Fraction) else c) for m, c in d.items() if c != 0})

    __rmul__ = __mul__

    def n_terms(self):
        return len(self.d)

    def degree(self):
        best = 0
        for m in self.d:
            t = 0
            while m:
                t += m & MASK
                m >>= BITS
            best = max(best, t)
        return best

    def variables(self):
        out = set()
        for m in self.d:
            i = 0
            while m:
                if m & MASK:
                    out.add(i)
                m >>= BITS
                i += 1
        return out

    def to_smt(self):
        """SMT-LIB2 term (text); variables are quoted symbols"""
        if not self.d:
            return "0.0"
        terms = []
        for m in sorted(self.d):
            c = Fraction(self.d[m])
            fs = []
            i = 0
            mm = m
            while mm:
                e = mm & MASK
                if e:
                    fs.extend(["|" + VARS.names[i] + "|"] * e)
                mm >>= BITS
                i += 1
            neg = c < 0
            ca = -c if neg else c
            cs = f"{ca.numerator}.0" if ca.denominator == 1 else f"(/ {ca.numerator}.0 {ca.denominator}.0)"
            if neg:
                cs = f"(- {cs})"
            if not fs:
                terms.append(cs)
            elif c == 1 and len(fs) == 1:
                terms.append(fs[0])
            elif c == 1:
                terms.append("(* " + " ".join(fs) + ")")
            else:
                terms.append("(* " + cs + " " + " ".join(fs) + ")")
        if len(terms) == 1:
            return terms[0]
        return "(+ " + " ".join(terms) + ")"

    def to_z3(self):
        if not self.d:
            return z3.RealVal(0)
        if len(self.d) > 24:
            # large polynomials go through z3's own SMT-LIB parser (orders of magnitude faster than the Python API)
            vs = sorted(self.variables())
            decl = "".join(f"(declare-const |{VARS.names[i]}| Real)\n" for i in vs)
            txt = decl + "(declare-const |@@t| Real)\n(assert (= |@@t| " + self.to_smt() + "))"
            f = z3.parse_smt2_string(txt)[0]
            return f.arg(1)
        terms = []
        for m in sorted(self.d):
            c = self.d[m]
            fs = []
            i = 0
            mm = m
            while mm:
                e = mm & MASK
                if e:
                    v = VARS.z3[i]
                    fs.extend([v] * e)
                mm >>= BITS
                i += 1
            c = Fraction(c)
            cz = z3.RealVal(str(c.numerator)) if c.denominator == 1 else z3.RealVal(str(c.numerator)) / z3.RealVal(str(c.denominator))
            if not fs:
                terms.append(cz)
            else:
                prod = fs[0]
                for f in fs[1:]:
                    prod = prod * f
                terms.append(prod if c == 1 else cz * prod)
        if len(terms) == 1:
            return terms[0]
        return z3.Sum(terms)

    def eval(self, values):
        """values: dict var index -> Fraction"""
        tot = Fraction(0)
        for m, c in self.d.items():
            t = Fraction(c)
            i = 0
            while m:
                e = m & MASK
                if e:
                    t *= values[i] ** e
                m >>= BITS
                i += 1
            tot += t
        return tot

    def __repr__(self):
        return f"P<{len(self.d)} terms>"


def self_test(seed=0, rounds=6):
    """cross-check the polynomial arithmetic against z3 on random small expressions:
    the canonical form of a random expression tree must be proved equal to the tree itself."""
    import random

    rng = random.Random(seed)
    names = [f"_pt{i}" for i in range(4)]
    for _ in range(rounds):
        def rnd(depth):
            if depth == 0 or rng.random() < 0.25:
                if rng.random() < 0.3:
                    c = Fraction(rng.randint(-5, 5), rng.randint(1, 3))
                    return P.const(c), z3.RealVal(str(c.numerator)) / z3.RealVal(str(c.denominator))
                n = rng.choice(names)
                return P.var(n), z3.Real(n)
            a, za = rnd(depth - 1)
            b, zb = rnd(depth - 1)
            op = rng.choice("+-**")
            if op == "+":
                return a + b, za + zb
            if op == "-":
                return a - b, za - zb
            return a * b, za * zb
        p, zt = rnd(4)
        s = z3.Solver()
        s.set("timeout", 20000)
        s.add(p.to_z3() != zt)
        if str(s.check()) != "unsat":
            raise AssertionError("poly.self_test: canonical form not proved equal to the expression tree")
        vals = {VARS.get(n): Fraction(rng.randint(-4, 4), rng.randint(1, 3)) for n in names}
        m = z3.Solver()
        sub = [(z3.Real(n), z3.RealVal(str(vals[VARS.get(n)].numerator)) / z3.RealVal(str(vals[VARS.get(n)].denominator))) for n in names]
        ev = z3.simplify(z3.substitute(zt, *sub))
        fr = Fraction(ev.numerator_as_long(), ev.denominator_as_long())
        if fr != p.eval(vals):
            raise AssertionError("poly.self_test: evaluation mismatch")
    return True
