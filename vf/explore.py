"""Path exploration shared by the jaxpr interpreter (JX) and the NumPy front end (PX).

A comparison between symbolic scalars yields a `SB` (symbolic bool, a z3 BoolRef).
Whenever Python / NumPy / the interpreter needs a *concrete* truth value
(`if`, `while`, `np.searchsorted`, `argmax`, an integer index that depends on data)
`SB.__bool__` asks the active `Explorer`: it checks with z3 which outcomes are
feasible under the current path condition, follows one and schedules the other
(depth-first).  `Explorer.paths(fn)` re-runs `fn` once per feasible path and yields
(path_condition, result).  An exhausted budget is reported, never hidden.
"""
import time
import z3


class Budget(Exception):
    pass


class Explorer:
    def __init__(self, pre=(), max_paths=100000, timeout_ms=20000, variables=None, seed=0):
        self.variables = list(variables) if variables is not None else None
        import random as _r
        self.rng = _r.Random(seed)
        self.n_sampled = 0
        self.pre = list(pre)
        self.stack = []  # [value_taken, other_branch_done]
        self.pos = 0
        self.pc = []
        self.solver = z3.Solver()
        self.solver.set("timeout", timeout_ms)
        self.solver.add(*self.pre) if self.pre else None
        self.max_paths = max_paths
        self.n_paths = 0
        self.n_queries = 0
        self.solver_s = 0.0
        self.unknown = 0
        self.uncertain = False
        self.unproved_failures = 0

    def _sample(self, cond):
        """cheap witness search before calling the solver: evaluate pre AND pc AND cond at seeded random rational points"""
        if not self.variables:
            return False
        goal = z3.And(*(self.pre + self.pc + [cond]))
        for _ in range(24):
            subs = []
            for v in self.variables:
                if v.sort().kind() == z3.Z3_INT_SORT:
                    subs.append((v, z3.IntVal(self.rng.randint(-4, 6))))
                else:
                    num = self.rng.randint(1, 9) if self.rng.random() < 0.6 else self.rng.randint(-9, 9)
                    subs.append((v, z3.RealVal(num) / z3.RealVal(self.rng.choice([1, 2, 3, 5, 7]))))
            try:
                if z3.is_true(z3.simplify(z3.substitute(goal, *subs))):
                    self.n_sampled += 1
                    return True
            except z3.Z3Exception:
                return False
        return False

    def _feasible(self, cond):
        if self._sample(cond):
            return True
        self.n_queries += 1
        t = time.time()
        self.solver.push()
        self.solver.add(*(self.pc + [cond]))
        r = str(self.solver.check())
        self.solver.pop()
        self.solver_s += time.time() - t
        if r == "unknown":
            self.unknown += 1
            self.uncertain = True
            return True  # over-approximate: explore it; the per-path obligation still carries the pc
        return r == "sat"

    def decide(self, cond):
        cond = z3.simplify(cond)
        if z3.is_true(cond):
            return True
        if z3.is_false(cond):
            return False
        if self.pos < len(self.stack):
            v = self.stack[self.pos][0]
        else:
            t = self._feasible(cond)
            f = self._feasible(z3.Not(cond))
            if t and f:
                self.stack.append([True, False])
            elif t:
                self.stack.append([True, True])
            elif f:
                self.stack.append([False, True])
            else:
                # infeasible path (can only happen after an `unknown` over-approximation)
                raise Infeasible()
            v = self.stack[self.pos][0]
        self.pos += 1
        self.pc.append(cond if v else z3.Not(cond))
        return v

    def _next(self):
        while self.stack and self.stack[-1][1]:
            self.stack.pop()
        if not self.stack:
            return False
        self.stack[-1] = [not self.stack[-1][0], True]
        self.pos = 0
        self.pc = []
        return True

    def paths(self, fn):
        """generator of (path_condition list, result of fn()) over all feasible paths"""
        global ACTIVE
        while True:
            self.pos = 0
            self.pc = []
            self.uncertain = False
            prev = ACTIVE
            ACTIVE = self
            try:
                try:
                    res = fn()
                    ok = True
                except Infeasible:
                    ok = False
                except Exception as ex:
                    benign = isinstance(ex, (IndexError, ZeroDivisionError, ValueError, ArithmeticError)) or "division by a constant zero" in str(ex)
                    if not (self.uncertain and benign):
                        raise
                    # the path was admitted only because a feasibility query timed out: it may well be infeasible, so the failure of
                    # the code under test on it proves nothing; it is counted and makes the exploration inconclusive
                    self.unproved_failures += 1
                    ok = False
            finally:
                ACTIVE = prev
            if ok:
                self.n_paths += 1
                yield list(self.pc), res
                if self.n_paths >= self.max_paths:
                    raise Budget(f"path budget {self.max_paths} exhausted")
            if not self._next():
                return


class Infeasible(Exception):
    pass


ACTIVE = None


class SB:
    """symbolic boolean"""

    __slots__ = ("e",)

    def __init__(self, e):
        self.e = e

    def __bool__(self):
        if ACTIVE is None:
            raise RuntimeError("symbolic truth value needed but no Explorer is active")
        return ACTIVE.decide(self.e)

    def __and__(a, b):
        return SB(z3.And(a.e, tb(b)))

    __rand__ = __and__

    def __or__(a, b):
        return SB(z3.Or(a.e, tb(b)))

    __ror__ = __or__

    def __invert__(a):
        return SB(z3.Not(a.e))

    def __xor__(a, b):
        return SB(z3.Xor(a.e, tb(b)))

    __rxor__ = __xor__

    def __eq__(a, b):
        return SB(a.e == tb(b))

    def __ne__(a, b):
        return SB(a.e != tb(b))

    def __hash__(self):
        return id(self)

    def __repr__(self):
        return f"SB({self.e})"


def tb(x):
    if isinstance(x, SB):
        return x.e
    if z3.is_expr(x):
        return x
    return z3.BoolVal(bool(x))
