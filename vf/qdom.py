"""Q domain: exact complex rational functions for the solver.

A scalar is  (re + i*im) * prod_k atom_k ** e_k  where re/im are either exact
`Fraction`s or z3 Real terms, and the monomial is kept *factored*: atoms are
registered sub-terms (determinants produced by the det/inv stubs, opaque
function results) whose powers are cancelled symbolically before anything is
multiplied out.  This keeps the degree of the final solver query minimal.

Nothing here knows about JAX; the jaxpr interpreter (jx.py), the NumPy path
explorer (px.py) and the Fock-space oracle (fock.py) all compute with these.
"""
from fractions import Fraction
import z3

from .poly import P

# ----------------------------------------------------------------------------
# real-level helpers: a "real" is a Fraction, a canonical polynomial (poly.P) or a z3 ArithRef
# (z3 terms appear only after an if-then-else / abs; everything polynomial stays canonical)


def isc(x):
    return isinstance(x, (int, Fraction))


def isp(x):
    return isinstance(x, P)


def tz(x):
    """real -> z3 term"""
    if isc(x):
        x = Fraction(x)
        if x.denominator == 1:
            return z3.RealVal(str(x.numerator))
        return z3.RealVal(str(x.numerator)) / z3.RealVal(str(x.denominator))
    if isinstance(x, P):
        return x.to_z3()
    return x


def _pn(x):
    """normalise a polynomial result: constants become Fractions"""
    if x.is_const():
        return x.const_value()
    return x


def radd(a, b):
    if isc(a) and isc(b):
        return Fraction(a) + Fraction(b)
    if isc(a) and a == 0:
        return b
    if isc(b) and b == 0:
        return a
    if z3.is_expr(a) or z3.is_expr(b):
        return tz(a) + tz(b)
    return _pn((a if isp(a) else P.const(a)) + (b if isp(b) else P.const(b)))


def rneg(a):
    if isc(a):
        return -Fraction(a)
    return -a


def rsub(a, b):
    return radd(a, rneg(b))


def rmul(a, b):
    if isc(a) and isc(b):
        return Fraction(a) * Fraction(b)
    if isc(a):
        if a == 0:
            return Fraction(0)
        if a == 1:
            return b
        if a == -1:
            return -b
    if isc(b):
        if b == 0:
            return Fraction(0)
        if b == 1:
            return a
        if b == -1:
            return -a
    if z3.is_expr(a) or z3.is_expr(b):
        return tz(a) * tz(b)
    if isc(a):
        return b.scale(a)
    if isc(b):
        return a.scale(b)
    return _pn(a * b)


def cmul(a, b):
    return (rsub(rmul(a[0], b[0]), rmul(a[1], b[1])), radd(rmul(a[0], b[1]), rmul(a[1], b[0])))


def cadd(a, b):
    return (radd(a[0], b[0]), radd(a[1], b[1]))


def cpow(a, k):
    r = (Fraction(1), Fraction(0))
    for _ in range(k):
        r = cmul(r, a)
    return r


def cconst(c):
    return isc(c[0]) and isc(c[1])


def rzero(x):
    return isc(x) and x == 0


# ----------------------------------------------------------------------------
# atoms


class Atoms:
    """Registry of factored sub-terms.

    vals[k]   (re, im) value of atom k as reals, or None for an opaque atom
              (a pure symbol: its value is the z3 constants in sym[k])
    sym[k]    for opaque atoms, the (re, im) z3 constants standing for it
    real[k]   True when the atom is known to be real valued (im == 0)
    facts[k]  list of z3 constraints that hold for the atom (contracts)
    """

    def __init__(self):
        self.reset()

    def reset(self):
        self.vals = []
        self.sym = []
        self.real = []
        self.facts = []
        self.names = []
        self.index = {}
        self.merge = True
        self.sqrt_of = {}  # atom k -> radicand Q: powers of k are reduced modulo k^2 = radicand
        self.inverted = set()
        self.merge_timeout_ms = 5000
        self.stats = {"merged": 0, "recognized": 0, "side_queries": 0}

    @staticmethod
    def key(c):
        return tuple((("c", x) if isc(x) else (("p", frozenset(x.d.items())) if isp(x) else ("z", x.get_id()))) for x in c)

    def get(self, c, name="det"):
        """atom index for the value c=(re,im); merges with an existing atom when a
        side query proves the values equal (sound: only on `unsat`)."""
        k = self.key(c)
        if k in self.index:
            return self.index[k]
        if self.merge:
            for j, v in enumerate(self.vals):
                if v is None or cconst(v):
                    continue
                if self._equal(c, v):
                    self.index[k] = j
                    self.stats["merged"] += 1
                    return j
        j = len(self.vals)
        self.index[k] = j
        self.vals.append(c)
        self.sym.append(None)
        self.real.append(rzero(c[1]))
        self.facts.append([])
        self.names.append(name)
        return j

    def _equal(self, a, b):
        if all(isc(x) or isp(x) for x in a + b):
            return False  # canonical forms: equal values have equal keys and were found by the index
        self.stats["side_queries"] += 1
        s = z3.Solver()
        s.set("timeout", self.merge_timeout_ms)
        s.add(z3.Or(tz(a[0]) != tz(b[0]), tz(a[1]) != tz(b[1])))
        return str(s.check()) == "unsat"

    def opaque(self, name, is_real=False, facts=()):
        j = len(self.vals)
        re = P.var(f"@{name}#{j}.re")
        im = Fraction(0) if is_real else P.var(f"@{name}#{j}.im")
        self.vals.append(None)
        self.sym.append((re, im))
        self.real.append(bool(is_real))
        self.facts.append(list(facts))
        self.names.append(name)
        return j

    def value(self, k):
        """(re, im) of atom k as reals"""
        return self.vals[k] if self.vals[k] is not None else self.sym[k]


ATOMS = Atoms()

# Holomorphic indeterminates (DESIGN 2.3): a complex input entry may be represented by ONE polynomial variable
# standing for a complex number.  This is sound for identities as long as the code under test never applies
# conj / real / imag / abs / comparisons to a value that depends on such a variable (a polynomial with
# coefficients in Q[i] that vanishes on R^n is the zero polynomial, hence vanishes on C^n).  The guard below
# refuses (NonHolomorphic) any such use, so the claim cannot silently become unsound.
HOLO = set()  # indices of poly variables that stand for complex numbers


class NonHolomorphic(Exception):
    pass


def _uses_holo(q):
    if not HOLO:
        return False
    for x in q.c:
        if isp(x) and (x.variables() & HOLO):
            return True
    for k in q.m:
        v = ATOMS.value(k)
        for x in v:
            if isp(x) and (x.variables() & HOLO):
                return True
    return False


def holo_guard(q, what):
    if _uses_holo(q):
        raise NonHolomorphic(f"{what} applied to a value that depends on a holomorphic walker variable")


# ----------------------------------------------------------------------------


class Q:
    __slots__ = ("c", "m")

    def __init__(self, c=0, m=None):
        if not isinstance(c, tuple):
            c = (c, Fraction(0))
        self.c = (Fraction(c[0]) if isc(c[0]) else (_pn(c[0]) if isp(c[0]) else c[0]),
                  Fraction(c[1]) if isc(c[1]) else (_pn(c[1]) if isp(c[1]) else c[1]))
        self.m = m or {}
        if self.m and isc(self.c[0]) and isc(self.c[1]) and self.c[0] == 0 and self.c[1] == 0:
            self.m = {}  # zero has no monomial

    # -- construction -------------------------------------------------------
    @staticmethod
    def lift(x):
        if isinstance(x, Q):
            return x
        if isinstance(x, complex):
            return Q((Fraction(x.real), Fraction(x.imag)))
        if isinstance(x, float):
            return Q(Fraction(x))
        if isinstance(x, (int, Fraction)):
            return Q(Fraction(x))
        if isinstance(x, bool):
            return Q(Fraction(int(x)))
        if z3.is_expr(x) or isinstance(x, P):
            return Q(x)
        try:
            import numpy as np

            if isinstance(x, np.generic):
                return Q.lift(x.item())
        except ImportError:
            pass
        raise TypeError(f"cannot lift {type(x)} to Q")

    def iszero(self):
        return cconst(self.c) and self.c[0] == 0 and self.c[1] == 0

    def isconst(self):
        return cconst(self.c) and not self.m

    def isreal(self):
        return rzero(self.c[1]) and all(ATOMS.real[k] for k in self.m)

    # -- ring operations ------------------------------------------------------
    def __mul__(a, b):
        if not isinstance(b, Q):
            if hasattr(b, "_g_domain"):
                return NotImplemented
            b = Q.lift(b)
        if a.iszero() or b.iszero():
            return Q(0)
        if not b.m:
            m = a.m
        elif not a.m:
            m = b.m
        else:
            m = dict(a.m)
            for k, e in b.m.items():
                v = m.get(k, 0) + e
                if v:
                    m[k] = v
                else:
                    m.pop(k, None)
        out = Q(cmul(a.c, b.c), m)
        if ATOMS.sqrt_of and a.m and b.m:
            for k in list(out.m):
                if k in ATOMS.sqrt_of and abs(out.m.get(k, 0)) >= 2:
                    e = out.m[k]
                    pairs = abs(e) // 2
                    rest = e - 2 * pairs * (1 if e > 0 else -1)
                    m2 = {kk: ee for kk, ee in out.m.items() if kk != k}
                    if rest:
                        m2[k] = rest
                    out = Q(out.c, m2)
                    rad = ATOMS.sqrt_of[k]
                    for _ in range(pairs):
                        out = out * (rad if e > 0 else rad.inv())
        return out

    __rmul__ = __mul__

    def expand_to(self, common):
        """coefficient after pulling out the monomial `common` (exponents must be >=)"""
        c = self.c
        for k in set(self.m) | set(common):
            r = self.m.get(k, 0) - common.get(k, 0)
            assert r >= 0
            if r:
                c = cmul(c, cpow(ATOMS.value(k), r))
        return c

    @staticmethod
    def common(a, b):
        cm = {}
        for k in set(a.m) | set(b.m):
            e = min(a.m.get(k, 0), b.m.get(k, 0))
            if e:
                cm[k] = e
        return cm

    def __add__(a, b):
        if not isinstance(b, Q):
            if hasattr(b, "_g_domain"):
                return NotImplemented
            b = Q.lift(b)
        if a.iszero():
            return b
        if b.iszero():
            return a
        if a.m == b.m:
            return Q(cadd(a.c, b.c), a.m)
        cm = Q.common(a, b)
        return Q(cadd(a.expand_to(cm), b.expand_to(cm)), cm)

    __radd__ = __add__

    def __neg__(a):
        return Q((rneg(a.c[0]), rneg(a.c[1])), a.m)

    def __pos__(a):
        return a

    def __sub__(a, b):
        if not isinstance(b, Q):
            if hasattr(b, "_g_domain"):
                return NotImplemented
            b = Q.lift(b)
        return a + (-b)

    def __rsub__(a, b):
        return Q.lift(b) + (-a)

    def inv(a):
        m = {k: -e for k, e in a.m.items()}
        if cconst(a.c):
            d = a.c[0] ** 2 + a.c[1] ** 2
            if d == 0:
                raise ZeroDivisionError("Q.inv of constant zero")
            for kk, e in m.items():
                if e < 0:
                    ATOMS.inverted.add(kk)
            return Q((a.c[0] / d, -a.c[1] / d), m)
        k = ATOMS.get(a.c, "den")
        v = m.get(k, 0) - 1
        if v:
            m[k] = v
        else:
            m.pop(k, None)
        for kk, e in m.items():
            if e < 0:
                ATOMS.inverted.add(kk)
        return Q(1, m)

    def __truediv__(a, b):
        if not isinstance(b, Q):
            if hasattr(b, "_g_domain"):
                return NotImplemented
            b = Q.lift(b)
        return a * b.inv()

    def __rtruediv__(a, b):
        return Q.lift(b) * a.inv()

    def __pow__(a, n):
        if isinstance(n, Q) and n.isconst() and n.c[0].denominator == 1:
            n = int(n.c[0])
        if isinstance(n, float) and n == 0.5 or isinstance(n, Fraction) and n == Fraction(1, 2):
            if a.isconst() and a.c[1] == 0 and a.c[0] >= 0:
                import math
                nn, dd = a.c[0].numerator, a.c[0].denominator
                rn, rd = math.isqrt(nn), math.isqrt(dd)
                if rn * rn == nn and rd * rd == dd:
                    return Q(Fraction(rn, rd))
            return opaque_fn("sqrt", [a], True)
        if not isinstance(n, int):
            raise TypeError("Q ** non-integer")
        if n < 0:
            return (a.inv()) ** (-n)
        r = Q(1)
        for _ in range(n):
            r = r * a
        return r

    def __abs__(a):
        return qabs(a)

    def sqrt(a):
        return opaque_fn("sqrt", [a], True)

    def conj(a):
        holo_guard(a, "conj")
        m = {}
        for k, e in a.m.items():
            if ATOMS.real[k]:
                kk = k
            else:
                v = ATOMS.value(k)
                if ATOMS.vals[k] is None:
                    raise NotImplementedError("conj of complex opaque atom")
                kk = ATOMS.get((v[0], rneg(v[1])), ATOMS.names[k] + "*")
            m[kk] = m.get(kk, 0) + e
        return Q((a.c[0], rneg(a.c[1])), m)

    def real(a):
        holo_guard(a, "real")
        if all(ATOMS.real[k] for k in a.m):
            return Q((a.c[0], 0), a.m)
        # general case: expand positive complex atoms; negative complex atoms -> multiply by conj/|.|^2
        return _real_imag(a, 0)

    def imag(a):
        holo_guard(a, "imag")
        if all(ATOMS.real[k] for k in a.m):
            return Q((a.c[1], 0), a.m)
        return _real_imag(a, 1)

    def as_atom(a, name="det"):
        """register own value as an atom (used for determinants) so later divisions cancel"""
        if cconst(a.c) or a.m:
            return a
        return Q(1, {ATOMS.get(a.c, name): 1})

    def value(a):
        """fully expanded (re, im) reals; only valid when no negative exponents"""
        return a.expand_to({})

    def __repr__(self):
        return f"Q({self.c[0]}, {self.c[1]}, m={self.m})"

    # numpy asks for these on object arrays
    def conjugate(a):
        return a.conj()


def _neg_part(a):
    return {k: e for k, e in a.m.items() if e < 0}


def _real_imag(a, which):
    """real/imag part of a Q whose monomial contains complex atoms.
    Positive powers are expanded; a complex atom z with negative power is rewritten
    z^-1 = conj(z) * |z|^-2 with |z|^2 registered as a real atom."""
    c = a.c
    m = {}
    for k, e in a.m.items():
        if ATOMS.real[k]:
            m[k] = m.get(k, 0) + e
            continue
        v = ATOMS.value(k)
        if e > 0:
            c = cmul(c, cpow(v, e))
        else:
            c = cmul(c, cpow((v[0], rneg(v[1])), -e))
            n2 = radd(rmul(v[0], v[0]), rmul(v[1], v[1]))
            kk = ATOMS.get((n2, Fraction(0)), "abs2")
            m[kk] = m.get(kk, 0) + e
    return Q((c[which], 0), m)


# ----------------------------------------------------------------------------
# queries


def denominators_nonzero(*qs):
    """z3 constraints: every atom that occurs with a negative exponent is non-zero"""
    neg = set()
    for q in qs:
        for k, e in q.m.items():
            if e < 0:
                neg.add(k)
    out = []
    for k in sorted(neg):
        v = ATOMS.value(k)
        out.append(z3.Or(tz(v[0]) != 0, tz(v[1]) != 0))
    return out


def inverted_nonzero():
    """every quantity the code (or the oracle) divided by is assumed non-zero"""
    out = []
    for k in sorted(ATOMS.inverted):
        v = ATOMS.value(k)
        if cconst(v):
            continue
        out.append(z3.Or(tz(v[0]) != 0, tz(v[1]) != 0))
    return out


def atom_facts(*qs):
    out = []
    seen = set()
    for q in qs:
        for k in q.m:
            if k not in seen:
                seen.add(k)
                out.extend(ATOMS.facts[k])
    return out


def diff_terms(a, b):
    """returns (list of z3 disequalities whose disjunction is a != b, side constraints).
    Both sides are brought over the common factored monomial first."""
    a = Q.lift(a)
    b = Q.lift(b)
    cm = Q.common(a, b)
    ca = a.expand_to(cm)
    cb = b.expand_to(cm)
    dis = []
    for x, y in zip(ca, cb):
        if isc(x) and isc(y):
            if x != y:
                dis.append(z3.BoolVal(True))
        elif z3.is_expr(x) or z3.is_expr(y):
            dis.append(tz(x) != tz(y))
        else:
            # both canonical: hand the solver the normal form of the difference
            d = rsub(x, y)
            if rzero(d):
                continue  # identical normal forms
            dis.append(tz(d) != 0)
    side = denominators_nonzero(a, b)
    # atoms that remain in the common monomial with positive exponent multiply both sides:
    # a != b also needs them non-zero
    for k, e in cm.items():
        if e > 0:
            v = ATOMS.value(k)
            side.append(z3.Or(tz(v[0]) != 0, tz(v[1]) != 0))
    side += atom_facts(a, b)
    return dis, side


def diff_polys(a, b):
    """canonical difference polynomials (re, im) of a - b over the common monomial, or None when a side is not canonical"""
    a = Q.lift(a)
    b = Q.lift(b)
    cm = Q.common(a, b)
    ca = a.expand_to(cm)
    cb = b.expand_to(cm)
    out = []
    for x, y in zip(ca, cb):
        if z3.is_expr(x) or z3.is_expr(y):
            return None
        d = rsub(x, y)
        out.append(d)
    return out


def recognize(q, timeout_ms=20000):
    """rewrite q's coefficient as a registered atom if the solver proves them equal
    (so that a later division by that atom cancels instead of being multiplied out)."""
    if cconst(q.c):
        return q
    kq = Atoms.key(q.c)
    for k, v in enumerate(ATOMS.vals):
        if v is None or cconst(v):
            continue
        if all(isc(x) or isp(x) for x in tuple(q.c) + tuple(v)):
            if Atoms.key(v) != kq:
                continue
            m = dict(q.m)
            m[k] = m.get(k, 0) + 1
            if m[k] == 0:
                del m[k]
            ATOMS.stats["recognized"] += 1
            return Q(1, m)
        s = z3.Solver()
        s.set("timeout", timeout_ms)
        s.add(z3.Or(tz(q.c[0]) != tz(v[0]), tz(q.c[1]) != tz(v[1])))
        ATOMS.stats["side_queries"] += 1
        if str(s.check()) == "unsat":
            m = dict(q.m)
            m[k] = m.get(k, 0) + 1
            if m[k] == 0:
                del m[k]
            ATOMS.stats["recognized"] += 1
            return Q(1, m)
    return q


# ----------------------------------------------------------------------------
# small dense linear algebra on nested lists of Q (contracts of det / inv)


def det(M):
    n = len(M)
    if n == 0:
        return Q(1)
    if n == 1:
        return M[0][0]
    if n == 2:
        return M[0][0] * M[1][1] - M[0][1] * M[1][0]
    tot = None
    for j in range(n):
        if isinstance(M[0][j], Q) and M[0][j].iszero():
            continue
        minor = [[M[i][k] for k in range(n) if k != j] for i in range(1, n)]
        t = M[0][j] * det(minor)
        if j % 2:
            t = -t
        tot = t if tot is None else tot + t
    return tot if tot is not None else Q(0)


def adj(M):
    n = len(M)
    out = [[None] * n for _ in range(n)]
    for i in range(n):
        for j in range(n):
            minor = [[M[r][c] for c in range(n) if c != i] for r in range(n) if r != j]
            cof = det(minor)
            out[i][j] = -cof if (i + j) % 2 else cof
    return out


# ----------------------------------------------------------------------------
# order, selection, non-rational functions


def _real_value(q, what):
    """z3/Fraction real of a real-valued Q without negative exponents"""
    q = Q.lift(q)
    holo_guard(q, what)
    if not rzero(q.c[1]) and not q.iszero():
        # allow a syntactically complex number whose atoms are all real only if im is 0
        raise NotImplementedError(f"{what} of a complex value")
    if any(e < 0 for e in q.m.values()):
        raise NotImplementedError(f"{what} of a value with symbolic denominator")
    v = q.expand_to({})
    if not rzero(v[1]):
        raise NotImplementedError(f"{what} of a complex value")
    return v[0]


def _signed_value(q, what):
    """a real whose SIGN equals the sign of the real-valued q = c * prod atom^e: positive powers are expanded, an atom with a
    negative exponent contributes its value once when the exponent is odd and nothing when it is even (atoms that are divided by
    are assumed non-zero; real atoms only)"""
    q = Q.lift(q)
    holo_guard(q, what)
    if not rzero(q.c[1]) and not q.iszero():
        raise NotImplementedError(f"{what} of a complex value")
    c = (q.c[0], Fraction(0))
    for k, e in q.m.items():
        if not ATOMS.real[k]:
            raise NotImplementedError(f"{what} of a value with a complex factor")
        v = ATOMS.value(k)
        if k in ATOMS.sqrt_of and e < 0:
            continue  # a square-root atom is > 0 when it is divided by
        n = e if e > 0 else (-e) % 2
        if n:
            c = cmul(c, cpow((v[0], Fraction(0)), n))
    return c[0]


def compare(op, a, b):
    """a <op> b for real-valued Q's; returns bool (constants) or explore.SB"""
    from .explore import SB
    import operator

    f = {"lt": operator.lt, "le": operator.le, "gt": operator.gt, "ge": operator.ge,
         "eq": operator.eq, "ne": operator.ne}[op]
    a, b = Q.lift(a), Q.lift(b)
    if op in ("eq", "ne") and (not a.isreal() or not b.isreal() or a.m or b.m):
        dis, side = diff_terms(a, b)
        e = z3.Or(*dis) if dis else z3.BoolVal(False)
        if op == "eq":
            e = z3.Not(e)
        e = z3.simplify(e)
        if z3.is_true(e):
            return True
        if z3.is_false(e):
            return False
        return SB(e)
    if any(e < 0 for e in a.m.values()) or any(e < 0 for e in b.m.values()):
        d = _signed_value(a - b, op)
        if isc(d):
            return bool(f(d, 0))
        return SB(f(tz(d), tz(Fraction(0))))
    x, y = _real_value(a, op), _real_value(b, op)
    if isc(x) and isc(y):
        return bool(f(x, y))
    return SB(f(tz(x), tz(y)))


def _install_cmp():
    def mk(op):
        def fn(a, b):
            if not isinstance(b, (Q, int, float, Fraction)) and not z3.is_expr(b):
                return NotImplemented
            return compare(op, a, b)
        return fn
    Q.__lt__ = mk("lt")
    Q.__le__ = mk("le")
    Q.__gt__ = mk("gt")
    Q.__ge__ = mk("ge")
    Q.__eq__ = mk("eq")
    Q.__ne__ = mk("ne")
    Q.__hash__ = lambda self: id(self)


_install_cmp()


def ite(cond, a, b):
    """if-then-else on Q values; cond is bool, SB or z3 BoolRef"""
    from .explore import SB

    if isinstance(cond, SB):
        cond = cond.e
    if isinstance(cond, (bool, int)) and not z3.is_expr(cond):
        return a if cond else b
    cond = z3.simplify(cond)
    if z3.is_true(cond):
        return a
    if z3.is_false(cond):
        return b
    a, b = Q.lift(a), Q.lift(b)
    if a.iszero() and b.iszero():
        return a
    if a.iszero():
        cm = dict(b.m)
    elif b.iszero():
        cm = dict(a.m)
    else:
        cm = Q.common(a, b)
    ca = a.expand_to(cm) if not a.iszero() else (Fraction(0), Fraction(0))
    cb = b.expand_to(cm) if not b.iszero() else (Fraction(0), Fraction(0))

    def sel(x, y):
        if isc(x) and isc(y) and x == y:
            return x
        return z3.If(cond, tz(x), tz(y))

    return Q((sel(ca[0], cb[0]), sel(ca[1], cb[1])), cm)


def qabs(q):
    q = Q.lift(q)
    holo_guard(q, "abs")
    if q.isconst():
        if q.c[1] == 0:
            return Q(abs(q.c[0]))
    if q.isreal() and not q.m:
        x = tz(q.c[0])
        return Q(z3.If(x >= 0, x, -x))
    if q.isreal() and all(ATOMS.real[k] for k in q.m):
        # |q| = q if sign(q) >= 0 else -q, with the sign read from the cross-multiplied form
        sgn = tz(_signed_value(q, "abs"))
        return ite(sgn >= 0, q, -q)
    if q.isreal():
        # |c * prod a_k^e_k| with real atoms: |c| * prod |a_k|^e_k -> use opaque abs atoms per atom
        out = qabs(Q(q.c))
        for k, e in q.m.items():
            out = out * (opaque_fn("abs", [Q(1, {k: 1})], True) ** e)
        return out
    return opaque_fn("abs", [q], True)


_OPAQUE = {}
NUMERIC = [False]  # translator validation only: opaque functions of constant arguments are evaluated in floating point


def _numeric(name, zs):
    import cmath
    import math
    z = zs[0]
    try:
        if name == "sqrt":
            return math.sqrt(z.real) if z.imag == 0 and z.real >= 0 else cmath.sqrt(z)
        if name == "exp":
            return math.exp(z.real) if z.imag == 0 else cmath.exp(z)
        if name == "log":
            return math.log(z.real) if z.imag == 0 and z.real > 0 else cmath.log(z)
        if name == "cos":
            return math.cos(z.real) if z.imag == 0 else cmath.cos(z)
        if name == "sin":
            return math.sin(z.real) if z.imag == 0 else cmath.sin(z)
        if name == "erf" and z.imag == 0:
            return math.erf(z.real)
        if name == "acosh" and z.imag == 0:
            return math.acosh(z.real)
        if name == "abs":
            return abs(z)
        if name == "atan2":
            return math.atan2(zs[0].real, zs[1].real)
    except (ValueError, OverflowError):
        return None
    return None


def q_key(q):
    q = Q.lift(q)
    return (Atoms.key(q.c), tuple(sorted(q.m.items())))


def reset():
    ATOMS.reset()
    _OPAQUE.clear()
    HOLO.clear()


def _cross(q):
    """(num, den) as complex reals with num/den == q and no denominators inside"""
    pos = {k: e for k, e in q.m.items() if e > 0}
    neg = {k: -e for k, e in q.m.items() if e < 0}
    num = Q(q.c, pos).expand_to({})
    den = Q(1, neg).expand_to({})
    return num, den


def opaque_fn(name, args, is_real, semantic=None):
    """uninterpreted function application with congruence: syntactically equal argument
    terms give the same atom; if `semantic`, a side query also merges arguments the solver
    proves equal.  Contracts (facts) are attached per function name."""
    args = [Q.lift(a) for a in args]
    if NUMERIC[0] and args and all(a.isconst() for a in args):
        v = _numeric(name, [complex(float(a.c[0]), float(a.c[1])) for a in args])
        if v is not None:
            return Q((Fraction(v.real), Fraction(v.imag))) if isinstance(v, complex) else Q(Fraction(float(v)))
    key = (name, tuple(q_key(a) for a in args))
    if key in _OPAQUE:
        return _OPAQUE[key]
    if semantic is None:
        # canonical (polynomial) arguments: equal values have equal keys; only arguments containing z3 terms (after an
        # if-then-else / abs) need the solver to recognise equality
        semantic = any(z3.is_expr(x) for a in args for x in a.c)
    if semantic:
        for (n2, k2), (val, args2) in list(_OPAQUE_ARGS.items()):
            if n2 != name or len(args2) != len(args):
                continue
            ok = True
            for a, b in zip(args, args2):
                if q_key(a) == q_key(b):
                    continue
                if a.isconst() or b.isconst():
                    ok = False
                    break
                dis, side = diff_terms(a, b)
                s = z3.Solver()
                s.set("timeout", ATOMS.merge_timeout_ms)
                s.add(*side)
                s.add(z3.Or(*dis) if dis else z3.BoolVal(False))
                ATOMS.stats["side_queries"] += 1
                if str(s.check()) != "unsat":
                    ok = False
                    break
            if ok:
                ATOMS.stats["merged"] += 1
                _OPAQUE[key] = val
                return val
    holo_dep = any(_uses_holo(a) for a in args)
    if holo_dep:
        is_real = False  # a function of a holomorphic indeterminate is itself one: conj / real / abs of it stay guarded
    k = ATOMS.opaque(name, is_real=is_real)
    out = Q(1, {k: 1})
    re, im = ATOMS.sym[k]
    if holo_dep:
        from .poly import VARS as _PV
        for x in (re, im):
            if isp(x):
                HOLO.update(x.variables())
    re = tz(re)
    facts = []
    a0 = args[0] if args else None
    if name == "sqrt" and a0 is not None and a0.isreal():
        (n, _), (d, _) = _cross(a0)
        facts += [re >= 0, re * re * tz(d) == tz(n)]
        ATOMS.sqrt_of[k] = a0
    elif name == "abs" and a0 is not None:
        (n0, n1), (d0, d1) = _cross(a0)
        facts += [re >= 0,
                  re * re * (tz(d0) * tz(d0) + tz(d1) * tz(d1)) == tz(n0) * tz(n0) + tz(n1) * tz(n1)]
    elif name == "exp" and is_real:
        facts += [re > 0]
    elif name in ("cos", "sin") and is_real:
        facts += [re >= -1, re <= 1]
    elif name == "erf" and is_real:
        facts += [re >= -1, re <= 1]
    ATOMS.facts[k] = facts
    _OPAQUE[key] = out
    _OPAQUE_ARGS[key] = (out, args)
    return out


_OPAQUE_ARGS = {}
_reset0 = reset


def reset():  # noqa: F811
    _reset0()
    _OPAQUE_ARGS.clear()


def tb_(x):
    """bool / explore.SB -> z3 Bool"""
    from .explore import SB
    if isinstance(x, SB):
        return x.e
    return z3.BoolVal(bool(x))
