"""G domain: graded polynomials  sum_{k,alpha} s^k x^alpha c_{k,alpha}  with coefficients in Q.

`s` is a designated small variable (sqrt(dt) for the propagators, the finite-difference step eps for the
AD trial energies), truncated at a stated ORDER; `x_1..x_nf` are the auxiliary fields.  exp / expm / inverse
are exact formal power series in s; the Gaussian field average is the linear map
x^alpha -> prod_i (alpha_i - 1)!!  (0 for odd alpha_i): exact integration, no sampling and no quadrature.
"Equal up to O(dt^2)" becomes "the coefficients of s^0..s^3 agree"; each coefficient identity is a Q-domain
solver obligation.
"""
from fractions import Fraction

import numpy as np

from .qdom import Q

CFG = {"order": 3, "nf": 0}


def configure(order, nf):
    CFG["order"] = order
    CFG["nf"] = nf


def dfact(n):  # (n-1)!! for even n
    r = 1
    for k in range(n - 1, 0, -2):
        r *= k
    return r


def _zero_alpha():
    return (0,) * CFG["nf"]


class G:
    __slots__ = ("t",)
    _g_domain = True

    def __init__(self, t=None):
        self.t = t or {}

    @staticmethod
    def lift(x):
        if isinstance(x, G):
            return x
        q = Q.lift(x)
        return G({(0, _zero_alpha()): q}) if not q.iszero() else G()

    @staticmethod
    def s(k=1):
        return G({(k, _zero_alpha()): Q(1)}) if k <= CFG["order"] else G()

    @staticmethod
    def x(i):
        a = [0] * CFG["nf"]
        a[i] = 1
        return G({(0, tuple(a)): Q(1)})

    def iszero(self):
        return not self.t

    def __add__(a, b):
        b = G.lift(b)
        if not a.t:
            return b
        if not b.t:
            return a
        t = dict(a.t)
        for k, v in b.t.items():
            if k in t:
                w = t[k] + v
                if w.iszero():
                    del t[k]
                else:
                    t[k] = w
            else:
                t[k] = v
        return G(t)

    __radd__ = __add__

    def __neg__(a):
        return G({k: -v for k, v in a.t.items()})

    def __pos__(a):
        return a

    def __sub__(a, b):
        return a + (-G.lift(b))

    def __rsub__(a, b):
        return G.lift(b) + (-a)

    def __mul__(a, b):
        b = G.lift(b)
        if not a.t or not b.t:
            return G()
        order = CFG["order"]
        t = {}
        for (k1, a1), v1 in a.t.items():
            for (k2, a2), v2 in b.t.items():
                if k1 + k2 > order:
                    continue
                key = (k1 + k2, tuple(x + y for x, y in zip(a1, a2)))
                p = v1 * v2
                if key in t:
                    t[key] = t[key] + p
                else:
                    t[key] = p
        return G({k: v for k, v in t.items() if not v.iszero()})

    __rmul__ = __mul__

    def const(a):
        return a.t.get((0, _zero_alpha()), Q(0))

    def rest(a):
        z = (0, _zero_alpha())
        return G({k: v for k, v in a.t.items() if k != z})

    def min_order(a):
        return min(k for (k, _) in a.t) if a.t else None

    def shift(a, n):
        """divide by s^n (all terms must have order >= n); the truncation order of the result is ORDER - n,
        which the caller accounts for by claiming only orders <= ORDER - (total shifts)."""
        out = {}
        for (k, al), v in a.t.items():
            if k < n:
                raise ZeroDivisionError("division by a power of the small variable leaves negative powers")
            out[(k - n, al)] = v
        return G(out)

    def inv(a):
        if not a.t:
            raise ZeroDivisionError("G.inv of zero")
        z = _zero_alpha()
        mo = a.min_order()
        if mo > 0:
            # pure power of s times a unit: only c * s^n supported (the finite-difference step)
            if len(a.t) == 1:
                ((k, al), v), = a.t.items()
                if al == z:
                    return _SInv(k, v)
            raise ZeroDivisionError("G.inv: no s-free constant term")
        for (k, al) in a.t:
            if k == 0 and al != z:
                raise ZeroDivisionError("G.inv: field-dependent constant term")
        c0 = a.const()
        ci = Q.lift(c0).inv()
        r = a.rest() * ci  # a = c0 (1 + r)
        out = G.lift(1)
        term = G.lift(1)
        for _ in range(1, CFG["order"] + 1):
            term = term * (-r)
            if not term.t:
                break
            out = out + term
        return out * ci

    def __truediv__(a, b):
        b = G.lift(b)
        inv = b.inv()
        if isinstance(inv, _SInv):
            return a.shift(inv.n) * Q.lift(inv.c).inv()
        return a * inv

    def __rtruediv__(a, b):
        return G.lift(b) / a

    def __pow__(a, n):
        if isinstance(n, Q) and n.isconst():
            n = n.c[0]
        if isinstance(n, G):
            n = n.const().c[0]
        n = Fraction(n)
        if n.denominator == 2 and n.numerator == 1:
            return a.sqrt()
        assert n.denominator == 1
        n = int(n)
        if n < 0:
            return (G.lift(1) / a) ** (-n)
        r = G.lift(1)
        for _ in range(n):
            r = r * a
        return r

    def exp(a):
        c0 = a.const()
        if not c0.iszero():
            raise NotImplementedError("exp of a series with non-zero constant term")
        for (k, al) in a.t:
            if k == 0:
                raise NotImplementedError("exp of a field-dependent s^0 term")
        out = G.lift(1)
        term = G.lift(1)
        for n in range(1, CFG["order"] + 1):
            term = term * a * Fraction(1, n)
            if not term.t:
                break
            out = out + term
        return out

    def sqrt(a):
        """only sqrt(c * s^(2n)) with c a perfect-square constant (sqrt(dt) = s)"""
        if len(a.t) == 1:
            ((k, al), v), = a.t.items()
            if al == _zero_alpha() and k % 2 == 0 and v.isconst() and v.c[1] == 0 and v.c[0] > 0:
                import math
                n, d = v.c[0].numerator, v.c[0].denominator
                rn, rd = math.isqrt(n), math.isqrt(d)
                if rn * rn == n and rd * rd == d:
                    return G({(k // 2, al): Q(Fraction(rn, rd))})
        raise NotImplementedError("sqrt in the graded domain only of c*s^(2n)")

    @staticmethod
    def expm(A):
        """matrix exponential of a matrix of G's with zero s^0 part: power series"""
        n = A.shape[-1]
        I = np.empty((n, n), dtype=object)
        for i in range(n):
            for j in range(n):
                I[i, j] = G.lift(1 if i == j else 0)
                if not A[i, j].const().iszero():
                    raise NotImplementedError("expm of a matrix with non-zero s^0 part")
        out = I.copy()
        term = I.copy()
        for k in range(1, CFG["order"] + 1):
            new = np.empty((n, n), dtype=object)
            nz = False
            for i in range(n):
                for j in range(n):
                    acc = G()
                    for l in range(n):
                        acc = acc + term[i, l] * A[l, j]
                    new[i, j] = acc * Fraction(1, k)
                    nz = nz or bool(new[i, j].t)
            term = new
            if not nz:
                break
            out = out + term
        return out

    def gauss(a):
        """exact Gaussian average over the fields; returns dict order k -> Q"""
        out = {}
        for (k, al), v in a.t.items():
            if any(e % 2 for e in al):
                continue
            m = 1
            for e in al:
                m *= dfact(e)
            out[k] = out.get(k, Q(0)) + v * m
        return out

    def coeffs(a):
        """dict (k, alpha) -> Q"""
        return dict(a.t)

    def conj(a):
        return G({k: v.conj() for k, v in a.t.items()})

    def conjugate(a):
        return a.conj()

    def real(a):
        return G({k: w for k, w in ((k, v.real()) for k, v in a.t.items()) if not w.iszero()})

    def imag(a):
        return G({k: w for k, w in ((k, v.imag()) for k, v in a.t.items()) if not w.iszero()})

    def as_atom(a, name="det"):
        return a

    def eval(a, s, xs):
        """numeric evaluation (python complex) at s and field values xs; coefficients must be constant"""
        tot = 0j
        for (k, al), v in a.t.items():
            assert v.isconst()
            t = complex(float(v.c[0]), float(v.c[1])) * s ** k
            for e, xv in zip(al, xs):
                t *= xv ** e
            tot += t
        return tot

    def __repr__(self):
        return f"G<{len(self.t)} terms>"


class _SInv:
    """1 / (c s^n): only meaningful as a right factor of a division"""

    def __init__(self, n, c):
        self.n, self.c = n, c
