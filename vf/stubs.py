"""Marker primitives for linear-algebra library calls (DESIGN.md section 3, A2).

While a repository function is traced, jnp.linalg.det / inv / qr / eigh and
jsp.linalg.expm are replaced by JAX primitives `sdet, sinv, sqr, seigh, sexpm`
that (a) execute exactly the original library routine when run concretely
(impl + MLIR lowering call the saved original), (b) batch, (c) differentiate by
the textbook rules, and (d) appear as single named equations in the jaxpr so the
symbolic interpreter can give them their mathematical contract instead of
re-deriving LAPACK's pivoted elimination.
"""
import contextlib
import jax
import jax.numpy as jnp
import jax.scipy as jsp
from jax.extend import core as jcore
from jax.interpreters import batching, ad, mlir

_orig = dict(det=jnp.linalg.det, inv=jnp.linalg.inv, qr=jnp.linalg.qr, eigh=jnp.linalg.eigh,
             expm=jsp.linalg.expm)


def _mk(name, impl, absfn, multiple=False):
    p = jcore.Primitive(name)
    p.multiple_results = multiple
    p.def_impl(impl)
    p.def_abstract_eval(absfn)
    mlir.register_lowering(p, mlir.lower_fun(impl, multiple_results=multiple))

    def rule(args, dims):
        (a,), (d,) = args, dims
        out = p.bind(jnp.moveaxis(a, d, 0))
        if multiple:
            return out, [0] * len(out)
        return out, 0

    batching.primitive_batchers[p] = rule
    return p


def _sa(shape, dtype):
    return jax.core.ShapedArray(tuple(shape), dtype)


sdet_p = _mk("sdet", lambda a: _orig["det"](a), lambda a: _sa(a.shape[:-2], a.dtype))
sinv_p = _mk("sinv", lambda a: _orig["inv"](a), lambda a: _sa(a.shape, a.dtype))
sexpm_p = _mk("sexpm", lambda a: _orig["expm"](a), lambda a: _sa(a.shape, a.dtype))


def _adj_impl(a):
    """adjugate by explicit cofactors (small matrices; valid for singular input)"""
    n = a.shape[-1]
    if n == 0:
        return a
    if n == 1:
        return jnp.ones_like(a)
    rows = []
    for i in range(n):
        cols = []
        for j in range(n):
            # adj[i, j] = (-1)^(i+j) det(minor with row j and column i removed)
            r = [k for k in range(n) if k != j]
            c = [k for k in range(n) if k != i]
            minor = a[..., r, :][..., :, c]
            cols.append(((-1) ** (i + j)) * _orig["det"](minor))
        rows.append(jnp.stack(cols, axis=-1))
    return jnp.stack(rows, axis=-2)


sadj_p = _mk("sadj", _adj_impl, lambda a: _sa(a.shape, a.dtype))


def sadj(a):
    return sadj_p.bind(jnp.asarray(a))


def _qr_impl(a):
    q, r = _orig["qr"](a)
    return [q, r]


def _qr_abs(a):
    n, k = a.shape[-2], a.shape[-1]
    kk = min(n, k)
    return [_sa(a.shape[:-2] + (n, kk), a.dtype), _sa(a.shape[:-2] + (kk, k), a.dtype)]


sqr_p = _mk("sqr", _qr_impl, _qr_abs, multiple=True)


def _eigh_impl(a):
    w, v = _orig["eigh"](a)
    return [w, v]


def _eigh_abs(a):
    import numpy as np

    wd = np.finfo(a.dtype).dtype if not np.issubdtype(a.dtype, np.complexfloating) else (
        np.float64 if a.dtype == np.complex128 else np.float32)
    return [_sa(a.shape[:-1], wd), _sa(a.shape, a.dtype)]


seigh_p = _mk("seigh", _eigh_impl, _eigh_abs, multiple=True)


def sdet(a):
    return sdet_p.bind(jnp.asarray(a))


def sinv(a):
    return sinv_p.bind(jnp.asarray(a))


def sexpm(a, *args, **kw):
    return sexpm_p.bind(jnp.asarray(a))


def sqr(a, mode="reduced"):
    if mode != "reduced":
        return _orig["qr"](a, mode=mode)
    q, r = sqr_p.bind(jnp.asarray(a))
    return q, r


def seigh(a, *args, **kw):
    w, v = seigh_p.bind(jnp.asarray(a))
    return w, v


def _det_jvp(primals, tangents):
    # d det(A) = tr(adj(A) dA): the cofactor form is valid for singular A as well (JAX's own rule uses
    # _cofactor_solve for the same reason; the padded excitation tables of multislater produce singular blocks)
    (a,), (da,) = primals, tangents
    return sdet(a), jnp.einsum("...ij,...ji->...", sadj(a), da)


def _inv_jvp(primals, tangents):
    (a,), (da,) = primals, tangents
    ai = sinv(a)
    return ai, -ai @ da @ ai


ad.primitive_jvps[sdet_p] = _det_jvp
ad.primitive_jvps[sinv_p] = _inv_jvp
# det/inv JVPs are expressed with the (linear-in-tangent) primitives dot/einsum, so JAX can
# transpose them for reverse mode (vjp) without further rules.


# ---- PRNG markers (A3): split / uniform / normal of jax.random become single named equations ----------------------------
import jax.random as _jr

_orig.update(split=_jr.split, uniform=_jr.uniform, normal=_jr.normal)


def _mkrand(name, impl, absfn):
    p = jcore.Primitive(name)
    p.def_impl(impl)
    p.def_abstract_eval(absfn)
    mlir.register_lowering(p, mlir.lower_fun(impl, multiple_results=False))
    return p


srand_split_p = _mkrand("srand_split", lambda k, num=2: _orig["split"](k, num),
                        lambda k, num=2: _sa((num,) + tuple(k.shape), k.dtype))
srand_uniform_p = _mkrand("srand_uniform", lambda k, shape=(): _orig["uniform"](k, shape=shape),
                          lambda k, shape=(): _sa(shape, jnp.float64))
srand_normal_p = _mkrand("srand_normal", lambda k, shape=(): _orig["normal"](k, shape=shape),
                         lambda k, shape=(): _sa(shape, jnp.float64))


def srand_split(key, num=2):
    return srand_split_p.bind(jnp.asarray(key), num=int(num))


def srand_uniform(key, shape=(), dtype=None, minval=0.0, maxval=1.0):
    assert minval == 0.0 and maxval == 1.0
    return srand_uniform_p.bind(jnp.asarray(key), shape=tuple(shape))


def srand_normal(key, shape=(), dtype=None):
    return srand_normal_p.bind(jnp.asarray(key), shape=tuple(shape))


@contextlib.contextmanager
def installed(det=True, inv=True, expm=True, qr=False, eigh=False, random=False):
    """patch jnp.linalg / jsp.linalg inside the block"""
    saved = (jnp.linalg.det, jnp.linalg.inv, jsp.linalg.expm, jnp.linalg.qr, jnp.linalg.eigh)
    saved_r = (_jr.split, _jr.uniform, _jr.normal)
    try:
        if random:
            _jr.split, _jr.uniform, _jr.normal = srand_split, srand_uniform, srand_normal
            jax.random.split, jax.random.uniform, jax.random.normal = srand_split, srand_uniform, srand_normal
        if det:
            jnp.linalg.det = sdet
        if inv:
            jnp.linalg.inv = sinv
        if expm:
            jsp.linalg.expm = sexpm
        if qr:
            jnp.linalg.qr = sqr
        if eigh:
            jnp.linalg.eigh = seigh
        yield
    finally:
        jnp.linalg.det, jnp.linalg.inv, jsp.linalg.expm, jnp.linalg.qr, jnp.linalg.eigh = saved
        _jr.split, _jr.uniform, _jr.normal = saved_r
        jax.random.split, jax.random.uniform, jax.random.normal = saved_r


def validate(seed=0):
    """numerical start-up validation of the stub rules against JAX's own (A2)"""
    import numpy as np

    rng = np.random.default_rng(seed)
    a = jnp.asarray(rng.normal(size=(3, 3)) + 1j * rng.normal(size=(3, 3)))
    da = jnp.asarray(rng.normal(size=(3, 3)) + 1j * rng.normal(size=(3, 3)))
    errs = []
    for mine, ref in ((sdet, _orig["det"]), (sinv, _orig["inv"])):
        p0, t0 = jax.jvp(mine, (a,), (da,))
        p1, t1 = jax.jvp(ref, (a,), (da,))
        errs.append(float(jnp.max(jnp.abs(p0 - p1))))
        errs.append(float(jnp.max(jnp.abs(t0 - t1))))
        g0 = jax.grad(lambda x: jnp.real(jnp.sum(mine(x) * (1 + 2j))), holomorphic=False)(a)
        g1 = jax.grad(lambda x: jnp.real(jnp.sum(ref(x) * (1 + 2j))), holomorphic=False)(a)
        errs.append(float(jnp.max(jnp.abs(g0 - g1))))
    b = jnp.stack([a, a.T])
    errs.append(float(jnp.max(jnp.abs(jax.vmap(sdet)(b) - jax.vmap(_orig["det"])(b)))))
    errs.append(float(jnp.max(jnp.abs(jax.jit(jax.vmap(sinv))(b) - jax.vmap(_orig["inv"])(b)))))
    return max(errs)
