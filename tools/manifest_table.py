HOOK_COMMITS = []
ENGINES = [
 {"name": "vf", "path": "vf/", "serves_properties": [],
  "kind_free_text": "jaxpr interpreter (JX) and NumPy path explorer (PX) over symbolic scalar domains, decided by z3 (nlsat / LRA / LIA / QF_FP)"},
]
NOTES = ("Solver-based checking of the real code: see DESIGN.md. Exit codes of ./check: 0 held, 1 violation "
         "(VIOLATION line, replayed), 2 inconclusive, 3 engine error.")
_WIP = "check under construction in this session (framework being built); will move to checks when it lands"
NA = {f"C{n:02d}": _WIP for n in range(1, 21)}
NA["C06"] = ("whole-program derivative of the sampled estimator (30-iteration SCF through LAPACK eigh, QR, PRNG, 1e2-1e4 "
             "transcendentals): no bounded SMT encoding within reach; with those abstracted it degenerates to JAX's own AD "
             "correctness. Sub-claims decided elsewhere: _eigh JVP under C18, primal = plain sampler at zero coupling under C12")
NA["C16"] = ("subject is pyscf's compiled integral/SCF/CC/FCI kernels and HDF5/npz files on disk; none is encodable for a solver")
