HOOK_COMMITS = ["c7ee5a1"]
ENGINES = [
 {"name": "vf", "path": "vf/", "serves_properties": [],
  "kind_free_text": "jaxpr interpreter (JX) and NumPy path explorer (PX) over symbolic scalar domains, decided by z3 (nlsat / LRA / LIA / QF_FP) and, for the UF + FP queries of C09, the cvc5 binary"},
]
NOTES = ("Solver-based checking of the real code: see DESIGN.md. Exit codes of ./check: 0 held, 1 violation "
         "(VIOLATION line, replayed), 2 inconclusive, 3 engine error.")
_WIP = "check under construction in this session (framework being built); will move to checks when it lands"
NA = {f"C{n:02d}": _WIP for n in range(1, 21)}
NA["C06"] = ("whole-program derivative of the sampled estimator (30-iteration SCF through LAPACK eigh, QR, PRNG, 1e2-1e4 "
             "transcendentals): no bounded SMT encoding within reach; with those abstracted it degenerates to JAX's own AD "
             "correctness. Sub-claims decided elsewhere: _eigh JVP under C18, primal = plain sampler at zero coupling under C12")
NA["C16"] = ("subject is pyscf's compiled integral/SCF/CC/FCI kernels and HDF5/npz files on disk; none is encodable for a solver")

_WF_NOTE = ("Trusted: z3 5.1.0; JAX tracing = execution (A6); jnp.linalg.det/inv replaced by contract stubs (A2); exact real arithmetic for "
            "float64, rounding outside the claim (A1), every counterexample replayed on the real jitted code; front-end polynomial normal "
            "form (vf/poly.py, self-tested against z3). Bounded shapes only (norb<=4).")
CHECKS["C01"] = dict(level="model_checking", design_ref="DESIGN.md 5/C01",
    technique="symbolic execution of the traced jaxpr + z3 (nlsat) polynomial identity vs Fock-space oracle, bounded shapes",
    text="Every overlap routine of every trial kind is traced from /repo (jax.make_jaxpr) and executed symbolically over exact rational "
         "functions; the obligation code_overlap != <psi_T|phi> (explicit second quantisation) is unsat for ALL complex walkers, trial "
         "parameters and CI coefficients at each bounded shape; same for restricted==unrestricted entry, batched order for every divisor "
         "n_batch, multi-Slater tables produced by the real get_excitations for enumerated lists/references, and 1-RDMs. Bounded model "
         "checking is the right level: the property is an algebraic identity per shape, the solver covers the whole input space of the shape.",
    note=_WF_NOTE)
CHECKS["C02"] = dict(level="model_checking", design_ref="DESIGN.md 5/C02",
    technique="symbolic execution of the traced jaxpr + z3 polynomial identity E_L*<psi|phi> = <psi|H|phi> vs Fock-space oracle, bounded shapes",
    text="build_measurement_intermediates + _calc_energy(_restricted) of each trial kind traced and executed symbolically (all of h0, h1 "
         "per spin, Cholesky matrices, walker, trial/CI parameters symbolic); obligation E_code*ovlp_code != <psi_T|H|phi> with H applied "
         "operator by operator is unsat at each bounded shape; batched calc_energy order for every n_batch.",
    note=_WF_NOTE)
CHECKS["C03"] = dict(level="model_checking", design_ref="DESIGN.md 5/C03",
    technique="symbolic execution of the traced jaxpr (incl. JAX's transposed vjp program) + z3 polynomial identity vs Fock-space oracle",
    text="_calc_force_bias(_restricted) of every kind - hand-coded Green's function contractions and the reverse-mode (vjp) derivative of the "
         "overlap - traced and executed symbolically; obligation fb_g*ovlp != <psi_T|L_g|phi> unsat for every g at each bounded shape, "
         "restricted and unrestricted entries, batched order for every n_batch.",
    note=_WF_NOTE)
CHECKS["C04"] = dict(level="model_checking", design_ref="DESIGN.md 5/C04",
    technique="jaxpr symbolic execution over graded series in sqrt(dt) with exact Gaussian moments + z3; weight rule in z3 QF_FP",
    text="Part A: the real propagate() (importance function read through the guarded hook), _apply_trotprop and "
         "_build_propagation_intermediates are traced with dt as an input and executed over series in s=sqrt(dt); for every "
         "occupation-number component the exact Gaussian average of imp*phi'/<psi|phi'> has the same s^0..s^3 coefficients as "
         "(1-dt(H-E_shift))phi/<psi|phi> (Fock oracle), i.e. the residual is O(dt^2), for all Hamiltonians, walkers, mean-field "
         "shifts; the argument of theta equals exp(-sqrt(dt) sum (x-f)m) ovlp'/ovlp. Part B: in IEEE-754 the applied weight equals "
         "w*clip(|imp| cos theta) with the NaN/window rule for every double.",
    note=_WF_NOTE + " Series truncated at s^3 (orders beyond dt^2 outside the claim); part B havocks everything upstream of |imp| and cos(theta).")
CHECKS["C09"] = dict(level="model_checking", design_ref="DESIGN.md 5/C09",
    technique="inductive step in IEEE-754 binary64 over the traced jaxpr with havocked upstream values; QF_FP / QF_UFFP queries decided by a z3 + cvc5 portfolio",
    text="One step of each propagator (phaseless restricted / unrestricted, propagator_cpmc, _cpmc_slow, _cpmc_nn, _cpmc_nn_slow, _cpmc_continuous) "
         "from an arbitrary pre-state satisfying the invariant, with every upstream quantity an arbitrary double under its IEEE contract: "
         "post-weights finite, >= 0, <= 100, not NaN; phaseless factor in {0} u [1e-3,100] and equal to the documented rule; dead stays dead; "
         "shift finite while a walker is alive (and back inside the pre-state bound for CPMC). One inductive step covers histories of any length. "
         "Candidates are reported only when a hostile concrete state - one that a real history reaches - reproduces them on the real function. "
         "The killed-walker fraction every sampler entry point reports equals its own clip to [0,1] for arbitrary block weights (Q domain, z3 LRA).",
    note="Trusted: z3 5.1 and cvc5 1.0.3; products / quotients / sums of two symbolic doubles are uninterpreted with lemma instances, each lemma "
         "discharged against the exact IEEE operation in the same run; JAX tracing; libm contracts for exp / log / erf. Weights in (0,1e-300), "
         "|dt*shift| > 590 and |dt*e_estimate| > 500 are outside the claim.")
CHECKS["C15"] = dict(level="model_checking", design_ref="DESIGN.md 5/C15",
    technique="symbolic execution of the traced jaxpr + z3 polynomial identities (congruence for every real C; invariance under Cayley-orthogonal C)",
    text="rotate_orbs output equals C^T X C elementwise for every real matrix C and every h1/chol at norb 2,3; energies, force biases "
         "and overlaps of rhf/uhf/ghf/noci are unchanged when Hamiltonian, trial and walker are rotated by an orthogonal matrix "
         "(fully symbolic Cayley parametrisation at norb 2, exact rational instances at norb 3).",
    note=_WF_NOTE)
CHECKS["C19"] = dict(level="model_checking", design_ref="DESIGN.md 5/C19",
    technique="path exploration of the real NumPy code on symbolic reals (z3-decided branches) + z3 nonlinear real arithmetic per path",
    text="blocking_analysis, reject_outliers and jackknife_ratios run unmodified on NumPy object arrays of symbolic reals/complex numbers; "
         "every feasible path is enumerated (branch feasibility by z3) and on each path the outputs equal independently written definitions "
         "(weighted mean, unbiased weighted variance / (nblocks-1), documented plateau rule, sorting-network median and MAD, brute-force "
         "leave-one-out) for ALL sample values within the size bound; invariance under weight rescaling / energy shift is an identity of "
         "those definitions. The statistical-validity clauses are not solver questions and are not claimed.",
    note="Trusted: z3 NRA; PX shims (np.zeros/ones return object arrays inside stat_utils); exact reals for floats. n <= 6 (7-8 thorough).")
CHECKS["C20"] = dict(level="model_checking", design_ref="DESIGN.md 5/C20",
    technique="real lattice methods executed on symbolic integer positions (z3 Int) with path exploration; z3 LIA obligations per enumerated size",
    text="For every enumerated lattice size the site position is a vector of solver integers pushed through the real get_site_num / "
         "get_nearest_neighbors; bijection with the site list, neighbour symmetry / validity / irreflexivity and agreement of the real "
         "adjacency matrix with the neighbour relation are unsat-checked for ALL sites at once; tree_flatten/unflatten is run with "
         "symbolic pass-through attribute values so any dropped or misplaced field is a sat; regularity, degree bounds, hash/eq and jit "
         "round trips are closed computations per size.",
    note="Trusted: z3 LIA; jnp.array in lattices.py treated as a container under PX. Sizes: chains 2..8, 2D sides 2..4, cubic 2..3 (quick).")
CHECKS["C07"] = dict(level="model_checking", design_ref="DESIGN.md 5/C07",
    technique="symbolic execution (jaxpr for the jitted variants, real NumPy/MPI code on symbolic reals for the others) with z3-decided path splits; z3 real arithmetic per path",
    text="All five sr.py implementations and the two propagator-level entry points are executed on symbolic weights and comb offset; each "
         "comb index forces a solver-decided path split, so every feasible path has concrete output tags; on every path: copies only, equal "
         "new weights sum|w|/N, conservation, floor/ceil counts, zero-weight never selected, up/down copied together, and the functional "
         "specification cum_{i-1} < W(k+zeta)/N <= cum_i, which determines the output uniquely (hence all implementations agree) and with "
         "the z3-proved interval lemma gives the exact expectation over the offset. MPI: R ranks as threads around a rank-ordered "
         "Gather/Scatter model, every arrival order enumerated.",
    note="Trusted: z3; exact reals for floats; the in-process communicator model; PRNG offset opaque in [0,1). N <= 3 (4 thorough), R <= 3.")
CHECKS["C05"] = dict(level="model_checking", design_ref="DESIGN.md 5/C05",
    technique="lemma chain decided by z3 on the traced code: graded series with exact Gaussian moments (field average), Q-domain identities (norm bookkeeping under a havocked QR, Taylor truncation, estimator)",
    text="L1: the un-normalised state produced by the real propagate_free times its norm has the exact Gaussian average "
         "(1-dt(H-ene0))phi through s^3 for all Hamiltonians, walkers, rdm1, ene0 (gauge-invariant read-out through minors); L3: with "
         "the QR output havocked (any Q, any upper-triangular R) norms' = norms*prod diag R_up*prod diag R_dn, overlaps' = "
         "overlap(Q)*norms', normed_overlaps' = overlap(Q), from an arbitrary pre-state, hence for any number of steps; L4: "
         "_apply_trotprop_det equals the Taylor polynomial of degree n_exp_terms-1 for n_exp_terms 2..6; L5: _block_scan_free returns "
         "sum(E_L*overlap)/sum(overlap). L2 (overlap(QR)=overlap(Q) prod diag R) is decided under C13.",
    note=_WF_NOTE + " QR itself (LAPACK) is a contract stub; series truncated at s^3.")
CHECKS["C13"] = dict(level="model_checking", design_ref="DESIGN.md 5/C13",
    technique="symbolic execution of the traced jaxpr with jnp.linalg.qr replaced by its contract (symbolic Q, upper-triangular R, A = QR) + z3 polynomial identities; "
              "path exploration of the real get_init_walkers on symbolic reals with z3 nonlinear real arithmetic per path",
    text="For every trial kind and both walker containers: overlap(A) = overlap(Q_out) x returned norm factor, E_L(A) = E_L(Q_out), "
         "force_bias(A) = force_bias(Q_out) for ALL Q (not assumed orthonormal), all invertible upper-triangular R and all Hamiltonians, "
         "through qr_vmap / qr_vmap_uhf and the propagators' orthonormalize_walkers / _orthogonalize_walkers; inside propagate_free "
         "the accumulated norm is multiplied by each step's factor from an ARBITRARY symbolic pre-state (inductive over steps); the rdm1 that "
         "get_init_walkers diagonalises equals <a+_ps a_qs> of the single-determinant trial (rhf, uhf). get_init_walkers (restricted, closed shell, one "
         "electron per spin, norb 2) is path-explored on symbolic unit orbitals under eigh/qr contracts: every returning path has |overlap| > 1e-3, "
         "orthonormal identical walkers, otherwise ValueError; larger electron counts, the open-shell branch and LAPACK's eigenvectors are outside.",
    note=_WF_NOTE + " LAPACK's QR (orthonormality, phases) is not verified: contract stub.")
CHECKS["C14"] = dict(level="model_checking", design_ref="DESIGN.md 5/C14",
    technique="symbolic execution of the traced jaxpr (transcendentals uninterpreted with congruence) + z3 term/polynomial equalities",
    text="_apply_trotprop and one full propagate() step (restricted and unrestricted) give identical outputs for every n_batch dividing the "
         "walker count and are equivariant under a transposition and a 4-cycle of (walkers, fields, weights, overlaps); the "
         "population-control shift is invariant; rhf+propagator_restricted on W equals uhf+propagator_unrestricted on [W,W] (walkers, "
         "weights, overlaps, force bias, energy) for all walkers, fields, weights; with two electrons per spin (norb 3) the overlap, "
         "energy and force bias of the rhf trial on [W,W] and of the uhf trial on [W,W] equal those of the rhf trial on W. n_batch independence of the measurement routines is "
         "decided under C01-C03.",
    note=_WF_NOTE + " exp/cos/angle/log uninterpreted (the equalities hold for every interpretation). Driver-level runs outside.")
CHECKS["C11"] = dict(level="model_checking", design_ref="DESIGN.md 5/C11",
    technique="symbolic execution of the traced jaxpr on index tables produced by the real get_excitations (enumerated lists) + z3 identities; path exploration of read_dets / get_fci_state on symbolic bytes / coefficients",
    text="(a) overlap, force bias and AD local energy of multislater built by the real get_excitations/parity from enumerated determinant "
         "lists (non-aufbau references, shuffled orders, two cut-offs) equal <psi|.|phi> with |psi> = sum c_i|D_i> for ALL coefficients and "
         "walkers; (b) (E_L - E)<psi|phi> = sum_J ((Hc)_J - E c_J) phi_J for all c, E, walkers, Hamiltonians on full determinant spaces, so an "
         "exact eigenvector gives E_L = E for every walker; (c) read_dets parses every byte pattern of a 2x3 file to exactly the written "
         "state; (d) get_fci_state preserves determinants/coefficients and orders by |coeff|.",
    note=_WF_NOTE + " pyscf's FCI solver and whole driver runs are outside; file model: header ints concrete, coefficients opaque reals, occupation bytes symbolic.")
CHECKS["C17"] = dict(level="model_checking", design_ref="DESIGN.md 5/C17",
    technique="path exploration of the real NumPy loop / the traced lax.scan on symbolic M = B B^T (pivot searches and loop exits are z3-decided splits); z3 nonlinear real arithmetic per path",
    text="pyscf_interface.modified_cholesky runs unmodified on object arrays of exact rational-function scalars (x**0.5 an atom reduced "
         "modulo s^2 = x): on every feasible path |M - sum L L^T| <= max_error element-wise for ALL B and thresholds >= 1e-8, for n = 1, 2 "
         "(every rank) and n = 3 rank 1; linalg_utils.modified_cholesky's jaxpr is interpreted with path splits at argmax: exact "
         "reconstruction when nchol_max = rank, and the JVP of the reconstruction equals dM; the symmetrisation feeding it in "
         "propagate_phaseless_ad_1 is the 4-fold symmetrisation. chunked_cholesky (pyscf integrals) is not applicable.",
    note="Trusted: z3 NRA, exact reals, PX shims. Thresholds below 1e-8 outside (the routine's 1e-10 pivot regularisation); n <= 3.")
CHECKS["C18"] = dict(level="model_checking", design_ref="DESIGN.md 5/C18",
    technique="symbolic execution of jax.jvp(_eigh) and of optimize() with jnp.linalg.eigh replaced by its contract + z3 identities / linear arithmetic",
    text="(1) the custom JVP of _eigh satisfies the defining equations of the eigenvalue/eigenvector derivative for all symmetric dA and all "
         "spectra with gaps >= the code's threshold (symbolic orthogonal V at n=2, rational instances at n=3); (2) for EVERY ascending "
         "spectrum (equal, nearly equal) no denominator of the rule is zero, so it stays finite; (3) in rhf/uhf.optimize every matrix handed "
         "to _eigh is the Fock matrix of the current density by definition (spin resolved for uhf) and the returned orbitals are "
         "orthonormal, for all Hamiltonians and initial orbitals. Convergence / fixed point / agreement with an independent SCF: not claimed.",
    note=_WF_NOTE + " eigh is a contract stub (LAPACK not verified); n_opt_iter = 2.")
CHECKS["C08"] = dict(level="model_checking", design_ref="DESIGN.md 5/C08",
    technique="symbolic execution of the traced sampler entry points with uninterpreted named calls (congruence) and the real trial overlap; z3 term equality of the hook accumulator with 0",
    text="Each sampler entry point is traced for block structures up to 2x2x2 with the guarded hook accumulating |cached - "
         "calc_overlap(walkers)|^2 at every propagate() entry. calc_overlap is interpreted for real; propagate, QR, local SR, the energy "
         "routines and optimize are uninterpreted named calls (fresh outputs), except the hook slice and the overlaps propagate itself "
         "returns. The accumulator is identically 0 for ARBITRARY incoming overlaps, walkers, weights: no history of blocks, QR, SR or "
         "driver iterations can make a step read a stale overlap. A missing or misplaced refresh leaves a non-zero term and is replayed.",
    note="Trusted: z3, JAX tracing, congruence abstraction (sound for equalities), the observation-only hook. 2 walkers, (2;1,1;1), <= 2x2x2 blocks; propagate_free and CPMC outside.")
CHECKS["C10"] = dict(level="model_checking", design_ref="DESIGN.md 5/C10",
    technique="symbolic execution of the traced jaxpr + z3 polynomial identities; field configurations forced by a comparison oracle, inductive cut points "
              "at scan iterations and after incremental updates; graded series for the one-body half step; probabilities measured by bisection on replay",
    text="(1) for uhf_cpmc and ghf_cpmc and EVERY ordered pair of spin-orbitals: calc_overlap_ratio x overlap = overlap of the row-scaled walker and "
         "update_greens_function = Green's function recomputed from scratch, for all walkers, trials and update constants; (2) (1/2) sum_sigma B_sigma = "
         "exp(-dt U n_up n_dn) from the contracts of exp/acosh; (3) the one-body half step exp_h1 against exp(-dt K/2) - KNOWN FINDING: the inherited "
         "intermediates contain Cholesky-derived one-body shifts; (4) step structure of propagator_cpmc / _slow: over all 2^n field configurations "
         "sum_sigma P(sigma) w' |phi'>/ov' = w exp(dt E_shift) 2^-n sum_sigma |A D_sigma A phi>/ov as Fock vectors for symbolic walker, trial, A, HS "
         "constants, by induction over the segments of the step from arbitrary valid states, with P the probabilities the code itself compares against; "
         "fast = slow (walkers, weights, overlaps, probabilities) for the on-site and the neighbour-interaction propagators, every incremental Green's "
         "function update of the neighbour propagator equal to the from-scratch value.",
    note="Trusted: z3 5.1.0; JAX tracing = execution (A6); det/inv contract stubs (A2); exact reals for float64 (A1), every counterexample replayed on the "
         "real jitted code over ALL configurations; erf / PRNG numbers uninterpreted (for the neighbour propagators jax.random inside ad_afqmc.propagation is "
         "replaced by a harness stub during the call). Bounds: one walker, norb <= 3, <= 64 configurations, no constraint active. The 16-term bond sum "
         "identity of the neighbour propagator is only evaluated on exact rational instances.")
CHECKS["C12"] = dict(level="model_checking", design_ref="DESIGN.md 5/C12",
    technique="exhaustive tracing of the option matrix (symbolic execution over shapes) + symbolic execution with uninterpreted block calls and z3 term equalities",
    text="(a) every sampler entry point is traced exactly as driver.afqmc calls it (plain, jax.jvp, jax.vjp) for both walker types and "
         "n_batch 1, 2: a trace-time exception is a call that cannot succeed; (b) with _block_scan / local SR uninterpreted and optimize() "
         "the identity (converged trial), the energies of plain, _ad, _ad_norot agree and _ad_nosr = _ad_nosr_norot for several block "
         "structures, for all walkers, weights, e_estimate; (c) _block_scan returns sum w cap(Re E_L)/sum w of the returned walkers with the "
         "sqrt(2/dt) cap and refreshed overlaps.",
    note="Trusted: z3, JAX tracing, congruence abstraction. Hardware bit-reproducibility and whole driver runs outside.")
for k in ("C01","C02","C03","C04","C05","C07","C08","C09","C10","C11","C12","C13","C14","C15","C17","C18","C19","C20"): NA.pop(k, None)
ENGINES[0]["serves_properties"] = sorted(CHECKS)
