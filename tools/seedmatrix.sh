#!/bin/bash
# run every confirmed seed against the quick check of the property it breaks; writes seeded/RESULTS.tsv
cd /verif
OUT=seeded/RESULTS.tsv
echo -e "seed\tcheck\texit\tviolations\tsummary" > $OUT
for d in seeded/C*/; do
  s=$(basename $d); c=${s%%-*}
  line=$(tools/seedrun.sh $s $c 2>&1 | head -1)
  ex=$(echo "$line" | sed -n 's/.*exit=\([0-9]*\).*/\1/p'); nv=$(echo "$line" | sed -n 's/.* \([0-9]*\) violations;.*/\1/p')
  echo -e "$s\t$c\t$ex\t$nv\t$(echo $line | cut -c1-200)" >> $OUT
done
git -C /repo status --short | head -3
