#!/usr/bin/env python3
"""Regenerates /verif/MANIFEST.json from the table below (single source of truth)."""
import json, os, sys
HERE = os.path.dirname(os.path.dirname(os.path.abspath(__file__)))
GUARD = "ANKIT76_AD_AFQMC_VERIF"
BASE = ("cd /repo && /venv/bin/python -m pytest -ra -q -p no:cacheprovider --timeout=900 "
        "--continue-on-collection-errors")
# id -> dict(level, text, note, technique, design_ref)   (only properties with a working check)
CHECKS = {}
NA = {}
exec(open(os.path.join(HERE, "tools", "manifest_table.py")).read())
ids = [json.loads(l)["id"] for l in open(os.path.join(HERE, "properties.jsonl"))]
checks = []
for pid in ids:
    if pid in CHECKS:
        c = CHECKS[pid]
        checks.append({
            "property_id": pid,
            "quick_cmd": f"./check {pid} --tier quick",
            "thorough_cmd": f"./check {pid} --tier thorough",
            "evidence_file": f"evidence/{pid}.json",
            "replay_cmd_template": "./check --replay {path}",
            "engine": c.get("engine", "vf"),
            "level_claimed": {"category": c["level"], "text": c["text"], "design_ref": c["design_ref"]},
            "level_note": c["note"],
            "technique": c["technique"],
        })
na = [{"property_id": pid, "reason": NA[pid]} for pid in ids if pid not in CHECKS]
assert all(pid in NA for pid in ids if pid not in CHECKS), "every unclaimed property needs a reason"
m = {
    "version": 1,
    "setup_cmd": "./setup.sh",
    "hooks": {"guard": GUARD,
              "enable": f"checks set {GUARD}=1 in their own process before importing ad_afqmc from /repo (pure Python, nothing to build)",
              "baseline_off_cmd": BASE,
              "source_commits": HOOK_COMMITS,
              "add_only": True},
    "engines": ENGINES,
    "checks": checks,
    "not_applicable": na,
    "notes": NOTES,
}
json.dump(m, open(os.path.join(HERE, "MANIFEST.json"), "w"), indent=1)
sys.path.append(os.path.join(HERE, ".deps"))
try:
    import jsonschema
    jsonschema.validate(m, json.load(open("/root/.vp/MANIFEST.schema.json")))
    print("MANIFEST.json valid;", len(checks), "checks,", len(na), "not_applicable")
except ImportError:
    print("written (jsonschema not available)")
