#!/bin/bash
# seedmatrix_wt.sh [parallelism] : every seed under seeded/ against the quick check of the property it breaks (plus the cross checks listed
# below), each on its own scratch worktree of /repo's HEAD (tools/seedrun_wt.sh), results to seeded/RESULTS.tsv
cd /verif
P=${1:-2}
extra() { case $1 in C13-2) echo C05;; C13-5) echo C01;; C09-1) echo C04;; esac; }
TMP=$(mktemp -d /verif/.scratch/matrix.XXXX)
ls seeded | grep -E '^C[0-9]+-[0-9]+$' | sort -V | while read s; do
  c=${s%%-*}
  echo "$s $c"
  for x in $(extra $s); do echo "$s $x"; done
done > $TMP/jobs
cat $TMP/jobs | xargs -P $P -L 1 bash -c 'SEED_WT=/tmp/repo_seed_$0_$1 tools/seedrun_wt.sh $0 $1 2>&1 | head -1 > '$TMP'/$0.$1.out'
printf "seed\tcheck\texit\tviolations\tsummary\n" > seeded/RESULTS.tsv
sort -V $TMP/jobs | while read s c; do
  line=$(cat $TMP/$s.$c.out)
  ex=$(echo "$line" | sed -n 's/.*exit=\([0-9]*\).*/\1/p'); v=$(echo "$line" | sed -n 's/.* \([0-9]*\) violations;.*/\1/p')
  note=""
  [ -f seeded/$s/meta.json ] && grep -q '"status"' seeded/$s/meta.json && note=" [obsolete seed, see meta.json]"
  printf "%s\t%s\t%s\t%s\t%s%s\n" "$s" "$c" "$ex" "$v" "$(echo "$line" | cut -c1-220)" "$note" >> seeded/RESULTS.tsv
done
rm -rf $TMP
cat seeded/RESULTS.tsv | cut -f1-4
