#!/bin/bash
# confirm_seed.sh <PROPERTY_ID> : independently re-confirm every seed_out/patchN.diff produced in /tmp/wt/<ID>
#  - demo passes on the clean scratch worktree, fails with the patch, the repo test-suite still passes with the patch
#  - confirmed ones are stored under /verif/seeded/<ID>-<N>/ (patch.diff, demo.py, meta.json)
ID=$1; WT=/tmp/wt/$ID; OUT=$WT/seed_out
cd $WT || exit 2
git checkout -q -- . 
for P in $OUT/patch*.diff; do
  N=$(basename $P .diff | sed 's/patch//')
  D=$OUT/demo$N.py
  [ -f $D ] || continue
  /venv/bin/python $D >/tmp/wt/$ID.demo_clean.$N.log 2>&1; RC_CLEAN=$?
  git apply $P || { echo "$ID-$N: patch does not apply"; continue; }
  /venv/bin/python $D >/tmp/wt/$ID.demo_patched.$N.log 2>&1; RC_PATCH=$?
  /venv/bin/python -m pytest -q -p no:cacheprovider --timeout=900 tests >/tmp/wt/$ID.pytest.$N.log 2>&1; RC_TEST=$?
  TESTLINE=$(tail -1 /tmp/wt/$ID.pytest.$N.log)
  git checkout -q -- .
  echo "$ID-$N: demo_clean=$RC_CLEAN demo_patched=$RC_PATCH pytest=$RC_TEST ($TESTLINE)"
  if [ $RC_CLEAN -eq 0 ] && [ $RC_PATCH -ne 0 ] && [ $RC_TEST -eq 0 ]; then
    S=/verif/seeded/$ID-$N; mkdir -p $S
    cp $P $S/patch.diff; cp $D $S/demo.py
    python3 - "$ID" "$N" "$TESTLINE" "$RC_PATCH" <<'PY'
import json,sys,re,os
ID,N,testline,rc=sys.argv[1:5]
notes=open(f"/tmp/wt/{ID}/seed_out/notes.md").read() if os.path.exists(f"/tmp/wt/{ID}/seed_out/notes.md") else ""
meta={"breaks_property":ID,"seed":f"{ID}-{N}","origin":"fresh sub-agent given only the property text and a scratch worktree",
 "confirmed":{"demo_on_clean_tree_exit":0,"demo_with_patch_exit":int(rc),"repo_test_suite_with_patch":testline,
   "commands":[f"cd /tmp/wt/{ID} && /venv/bin/python seed_out/demo{N}.py","git apply seed_out/patch%s.diff"%N,
     "/venv/bin/python -m pytest -q -p no:cacheprovider --timeout=900 tests","git checkout -- ."]},
 "needs_to_manifest":"see notes","agent_notes_excerpt":notes[:6000]}
json.dump(meta,open(f"/verif/seeded/{ID}-{N}/meta.json","w"),indent=1)
PY
  fi
done
