#!/bin/bash
# seedrun.sh <seed-dir-name> <CHECK...> : apply seeded/<name>/patch.diff to /repo, run the quick checks, undo.
S=/verif/seeded/$1; shift
cd /repo && git diff --quiet || { echo "/repo not clean"; exit 9; }
git -C /repo apply $S/patch.diff 2>/dev/null || (cd /repo && patch -p1 -F3 --no-backup-if-mismatch -s < $S/patch.diff) || { git -C /repo checkout -- .; echo "patch does not apply (repo has moved on?)"; exit 8; }
trap 'git -C /repo checkout -- .' EXIT
cd /verif
export VERIF_EVIDENCE_DIR=/verif/.scratch/seed_evidence  # evidence/ only ever holds runs on the unchanged tree
for C in "$@"; do
  ./check $C --tier ${TIER:-quick} > /tmp/seedrun_$(basename $S)_$C.log 2>&1; RC=$?
  echo "$(basename $S) $C exit=$RC $(grep -c '^VIOLATION' /tmp/seedrun_$(basename $S)_$C.log) violations; $(tail -1 /tmp/seedrun_$(basename $S)_$C.log)"
  grep '^VIOLATION\|^  case=' /tmp/seedrun_$(basename $S)_$C.log | head -4
done
