#!/bin/bash
# runall.sh <tier> [seed] : every registered check once, sequentially; summary lines to stdout, full logs under .scratch/runall
cd /verif
tier=${1:-quick}; seed=${2:-0}
mkdir -p .scratch/runall
for id in C01 C02 C03 C04 C05 C07 C08 C09 C10 C11 C12 C13 C14 C15 C17 C18 C19 C20; do
  s=$(date +%s)
  VERIF_SEED=$seed ./check $id --tier $tier > .scratch/runall/$id.$tier.$seed.log 2>&1
  rc=$?
  echo "$id rc=$rc $(( $(date +%s) - s ))s $(tail -1 .scratch/runall/$id.$tier.$seed.log | cut -c1-200)"
done
