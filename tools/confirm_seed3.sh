#!/bin/bash
# confirm_seed2.sh <PROPERTY_ID> <first index> : third-round seeds produced in /tmp/wt3/<ID>/seed_out (demos take the library path from $REPO)
#  - demo passes on the clean scratch worktree, fails with the patch, the repo test-suite still passes with the patch
#  - confirmed ones are stored under /verif/seeded/<ID>-<first index + k>/ (patch.diff, demo.py, meta.json)
ID=$1; K=${2:-4}; WT=/tmp/wt3/$ID; OUT=$WT/seed_out
cd $WT || exit 2
git checkout -q -- .
for P in $OUT/patch*.diff; do
  N=$(basename $P .diff | sed 's/patch//')
  D=$OUT/demo$N.py
  [ -f $D ] || continue
  REPO=$WT /venv/bin/python $D >/tmp/wt3/$ID.demo_clean.$N.log 2>&1; RC_CLEAN=$?
  git apply $P || { echo "$ID-$N: patch does not apply"; continue; }
  REPO=$WT /venv/bin/python $D >/tmp/wt3/$ID.demo_patched.$N.log 2>&1; RC_PATCH=$?
  /venv/bin/python -m pytest -q -p no:cacheprovider --timeout=900 tests >/tmp/wt3/$ID.pytest.$N.log 2>&1; RC_TEST=$?
  TESTLINE=$(tail -1 /tmp/wt3/$ID.pytest.$N.log)
  git checkout -q -- .
  echo "$ID round3 #$N -> $ID-$K: demo_clean=$RC_CLEAN demo_patched=$RC_PATCH pytest=$RC_TEST ($TESTLINE)"
  if [ $RC_CLEAN -eq 0 ] && [ $RC_PATCH -ne 0 ] && [ $RC_TEST -eq 0 ]; then
    S=/verif/seeded/$ID-$K; mkdir -p $S
    cp $P $S/patch.diff; cp $D $S/demo.py
    python3 - "$ID" "$N" "$TESTLINE" "$RC_PATCH" "$K" <<'PY'
import json,sys,os
ID,N,testline,rc,K=sys.argv[1:6]
p=f"/tmp/wt3/{ID}/seed_out/NOTES.md"
notes=open(p).read() if os.path.exists(p) else ""
meta={"breaks_property":ID,"seed":f"{ID}-{K}","round":3,"origin":"fresh sub-agent given only the property text and a scratch worktree (third round, on the repaired tree)",
 "confirmed":{"demo_on_clean_tree_exit":0,"demo_with_patch_exit":int(rc),"repo_test_suite_with_patch":testline,
   "commands":[f"REPO=<tree> /venv/bin/python demo.py  (the demo takes the library location from $REPO)","git apply patch.diff",
     "/venv/bin/python -m pytest -q -p no:cacheprovider --timeout=900 tests","git checkout -- ."]},
 "agent_notes_excerpt":notes[:6000]}
json.dump(meta,open(f"/verif/seeded/{ID}-{K}/meta.json","w"),indent=1)
PY
    K=$((K+1))
  fi
done
