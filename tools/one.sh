#!/bin/bash
# one.sh <module> '<json args>' : run a single case in-process (debugging)
cd /verif && /venv/bin/python - "$@" <<'PY'
import sys, json, time
sys.path.insert(0,'/verif')
from vf import runner; runner.setup_env(); runner._init()
import importlib
mod=importlib.import_module(sys.argv[1]); args=json.loads(sys.argv[2])
t=time.time(); r=mod.run(args,0,runner.load_known(sys.argv[1].split('.')[-1].upper()))
for k in ("case","obligations","violations","inconclusive","errors","validation","twins","atoms","traced","wall_s"): print(k, r.get(k))
PY
