#!/bin/bash
# seedrun_wt.sh <seed-dir-name> <CHECK...> : like seedrun.sh but on a scratch worktree of /repo's HEAD (VERIF_REPO), so that /repo itself is
# never touched and other checks can keep running.  Development convenience only; the detection matrix is produced by seedmatrix.sh on /repo.
S=/verif/seeded/$1; shift
WT=${SEED_WT:-/tmp/repo_seed_$$}
git -C /repo worktree add --detach -q $WT HEAD || exit 9
trap 'git -C /repo worktree remove --force $WT' EXIT
git -C $WT apply $S/patch.diff 2>/dev/null || (cd $WT && patch -p1 -F3 --no-backup-if-mismatch -s < $S/patch.diff) || { echo "patch does not apply"; exit 8; }
cd /verif
export VERIF_REPO=$WT VERIF_EVIDENCE_DIR=/verif/.scratch/seed_evidence
for C in "$@"; do
  L=/verif/.scratch/seedrun_$(basename $S)_$C.log
  ./check $C --tier ${TIER:-quick} > $L 2>&1; RC=$?
  echo "$(basename $S) $C exit=$RC $(grep -c '^VIOLATION' $L) violations; $(tail -1 $L)"
  grep '^VIOLATION\|^  case=' $L | head -4
done
