"""C20 - lattices are consistent graphs that survive construction and pytree round trips.

Sizes are enumerated (construction is a closed computation per size); per size the site / position is a SYMBOLIC integer
vector (z3 Int, bounded by the size) pushed through the real `get_site_num` / `get_nearest_neighbors` code (PX front end),
and the real `create_adjacency_matrix()` output is used as a lookup table.  Round trips run the real
tree_flatten / tree_unflatten with symbolic pass-through attribute values, so a positional mix-up is a `sat`.
"""
import itertools
import json
import os
import time
import traceback
from dataclasses import fields as dc_fields

import numpy as np
import z3

from vf import px
from vf.explore import Explorer, SB
from vf.px import SI

META = {
    "level": "model_checking",
    "trusted": ["z3 5.1.0 (linear integer arithmetic)", "PX: the real Python methods run on symbolic integers; jnp.array inside lattices.py is only a container",
                "Python // and % with positive constant divisors = z3 Int div / mod"],
    "assumptions": ["side lengths enumerated within the bound; positions, site numbers and pass-through attribute values are solver variables",
                    "create_adjacency_matrix() is executed concretely per size and used as a table (its consistency with the neighbour code is itself an obligation)",
                    "three_dimensional_grid has no create_adjacency_matrix: only bijection / neighbour obligations apply to it",
                    "open triangular lattices: neighbour symmetry and the degree bound are claimed for an even number of rows only (odd row counts "
                    "make the staggered rows inconsistent with the periodic wrap; the property statement qualifies them the same way)"],
    "bounds": {"quick": "chains 2..8; grids and triangular lattices (periodic and open) with sides 2..4 (all l_x != l_y combinations); cubic 2..3 per side",
               "thorough": "chains 2..12; 2D sides 2..6; cubic sides 2..4"},
    "outside": "larger side lengths; the phonon / bond helper methods",
}


def _shim(on):
    from ad_afqmc import lattices
    import jax.numpy as jnp
    lattices.jnp = px.ContainerNP() if on else jnp


def make(spec):
    from ad_afqmc import lattices
    k = spec["kind"]
    if k == "chain":
        return lattices.one_dimensional_chain(spec["n"])
    if k == "grid":
        return lattices.two_dimensional_grid(spec["lx"], spec["ly"])
    if k == "tri":
        return lattices.triangular_grid(spec["lx"], spec["ly"], open_x=bool(spec.get("open_x", False)))
    if k == "cubic":
        return lattices.three_dimensional_grid(spec["lx"], spec["ly"], spec["lz"])
    raise ValueError(k)


def dims(spec, lat):
    """ranges of the position coordinates, in the order the class uses them"""
    k = spec["kind"]
    if k == "chain":
        return [spec["n"]]
    if k == "grid":
        return [spec["ly"], spec["lx"]]      # pos = (row in 0..l_y-1, column in 0..l_x-1)
    if k == "tri":
        return [spec["lx"], spec["ly"]]      # pos = (row in 0..l_x-1 (height), column in 0..l_y-1 (width))
    if k == "cubic":
        return [spec["lz"], spec["ly"], spec["lx"]]


def raw(method):
    return getattr(method, "__wrapped__", method)


def nbrs(lat, pos):
    """neighbour list through the real (undecorated) method on symbolic or concrete positions"""
    f = raw(type(lat).get_nearest_neighbors)
    out = f(lat, pos)
    return [tuple(q) for q in out]


def site_num(lat, pos):
    return raw(type(lat).get_site_num)(lat, pos)


def zi(x):
    return px.zi(x)


def in_bounds(q, D):
    return z3.And(*[z3.And(zi(c) >= 0, zi(c) < d) for c, d in zip(q, D)])


def same(p, q):
    return z3.And(*[zi(a) == zi(b) for a, b in zip(p, q)])


def name(spec):
    return ":".join(f"{k}={v}" for k, v in spec.items())


class Runner:
    def __init__(self, spec, known):
        self.spec, self.known = spec, known or {}
        self.res = {"case": name(spec), "obligations": [], "violations": [], "inconclusive": [], "errors": [], "known": [], "samples": [],
                    "functions": [], "paths": 0}

    def ob(self, label, asserts, witness_vars=None, concrete=None):
        """asserts: z3 constraints whose conjunction must be UNSAT. concrete(model)->bool confirms on the real code."""
        t0 = time.time()
        s = z3.Solver()
        s.set("timeout", 60000)
        s.add(*asserts)
        r = str(s.check())
        ob = {"label": label, "status": r, "seconds": round(time.time() - t0, 3), "how": "LIA"}
        if len(self.res["samples"]) < 2:
            txt = s.to_smt2()
            self.res["samples"].append({"label": label, "smt2_head": txt[:1200], "smt2_bytes": len(txt)})
        if r == "sat":
            m = s.model()
            w = {str(v): m.eval(v, model_completion=True).as_long() for v in (witness_vars or [])}
            confirmed = concrete(w) if concrete else False
            if confirmed:
                key = f"{self.res['case']}:{label}"
                path = self._write(label, w)
                v = {"label": label, "key": key, "replay": path, "detail": f"witness {w} reproduces on the real lattice code"}
                if key in self.known:
                    self.res["known"].append(v)
                    ob["status"] = "known-finding"
                else:
                    self.res["violations"].append(v)
                    ob["status"] = "violated"
            else:
                ob["status"] = "spurious"
                self.res["errors"].append(f"{label}: model {w} does not reproduce on the real code")
        elif r != "unsat":
            self.res["inconclusive"].append(label)
        self.res["obligations"].append(ob)

    def closed(self, label, ok, detail=""):
        """an obligation that is a closed computation for this size (no free variable): evaluated on the real code"""
        ob = {"label": label, "status": "unsat" if ok else "violated", "seconds": 0.0, "how": "closed computation"}
        if not ok:
            key = f"{self.res['case']}:{label}"
            path = self._write(label, {"detail": detail})
            v = {"label": label, "key": key, "replay": path, "detail": detail}
            if key in self.known:
                self.res["known"].append(v)
                ob["status"] = "known-finding"
            else:
                self.res["violations"].append(v)
        self.res["obligations"].append(ob)

    def _write(self, label, w):
        from vf.engine import VERIF
        d = os.path.join(VERIF, "replays")
        os.makedirs(d, exist_ok=True)
        safe = "".join(ch if ch.isalnum() or ch in "-_." else "_" for ch in f"C20_{self.res['case']}__{label}")
        path = os.path.join(d, safe + ".json")
        json.dump({"check": "C20", "case_args": self.spec, "label": label, "witness": w}, open(path, "w"), indent=1, default=str)
        return path


# ---- concrete evaluation of each property on the real code (used to confirm solver witnesses and for replay) ------------
def concrete_eval(spec, label, w):
    lat = make(spec)
    D = dims(spec, lat)
    nd = len(D)
    p = tuple(int(w.get(f"p{i}", 0)) for i in range(nd))
    q = tuple(int(w.get(f"q{i}", 0)) for i in range(nd))

    def cn(pos):
        return [tuple(int(c) for c in t) for t in np.asarray(lat.get_nearest_neighbors(pos)).reshape(-1, nd)]

    def inb(t):
        return all(0 <= c < d for c, d in zip(t, D))

    if label == "site_num_in_range":
        k = int(lat.get_site_num(p))
        return not (0 <= k < lat.n_sites)
    if label == "sites_inverse":
        k = int(lat.get_site_num(p))
        return not (0 <= k < lat.n_sites and tuple(lat.sites[k]) == p)
    if label == "site_num_injective":
        return p != q and int(lat.get_site_num(p)) == int(lat.get_site_num(q))
    if label.startswith("neighbour_symmetric"):
        for t in cn(p):
            if inb(t) and p not in cn(t):
                return True
        return False
    if label.startswith("neighbour_valid"):
        return any(not inb(t) for t in cn(p))
    if label.startswith("neighbour_irreflexive"):
        return p in cn(p)
    if label == "adjacency_matches_neighbours":
        adj = lat.create_adjacency_matrix()
        i, j = int(lat.get_site_num(p)), int(lat.get_site_num(q))
        rel = (q in [t for t in cn(p) if inb(t)]) or (p in [t for t in cn(q) if inb(t)])
        return bool(adj[i, j] == 1) != rel
    return False


def run(spec, seed, known):
    R = Runner(spec, known)
    t_start = time.time()
    try:
        _run(R, spec)
    except Exception as ex:
        R.res["errors"].append(f"{type(ex).__name__}: {ex}\n{traceback.format_exc()[-1500:]}")
    finally:
        _shim(False)
    R.res["wall_s"] = round(time.time() - t_start, 3)
    return R.res


def _run(R, spec):
    from ad_afqmc import lattices
    import jax
    kind = spec["kind"]
    cls = {"chain": "one_dimensional_chain", "grid": "two_dimensional_grid", "tri": "triangular_grid", "cubic": "three_dimensional_grid"}[kind]
    R.res["functions"] = [f"ad_afqmc.lattices.{cls}.{m}" for m in ("__post_init__", "get_site_num", "get_nearest_neighbors", "create_adjacency_matrix",
                                                                  "tree_flatten", "tree_unflatten", "__hash__")]
    # construction (a closed computation per size): an exception is a violation
    try:
        lat = make(spec)
    except Exception as ex:
        R.closed("constructible", False, f"{type(ex).__name__}: {ex}")
        return
    R.closed("constructible", True)
    D = dims(spec, lat)
    nd = len(D)
    n = int(np.prod(D))
    R.closed("n_sites", lat.n_sites == n and len(lat.sites) == n, f"n_sites={lat.n_sites} len(sites)={len(lat.sites)} expected {n}")
    has_adj = hasattr(lat, "create_adjacency_matrix")
    adj = np.asarray(lat.create_adjacency_matrix()) if has_adj else None   # real code, real jnp
    minside = min(D)
    periodic = not spec.get("open_x", False)

    _shim(True)
    P = [SI(f"p{i}") for i in range(nd)]
    Qv = [SI(f"q{i}") for i in range(nd)]
    pv = [x.e for x in P]
    qv = [x.e for x in Qv]
    dom_p = [z3.And(x >= 0, x < d) for x, d in zip(pv, D)]
    dom_q = [z3.And(x >= 0, x < d) for x, d in zip(qv, D)]
    conc = lambda label: (lambda w: concrete_eval(spec, label, w))

    # --- site list and site numbering are inverse bijections
    k = zi(site_num(lat, tuple(P)))
    R.ob("site_num_in_range", dom_p + [z3.Not(z3.And(k >= 0, k < n))], pv, conc("site_num_in_range"))
    table = z3.Or(*[z3.And(k == i, same(tuple(P), lat.sites[i])) for i in range(n)])
    R.ob("sites_inverse", dom_p + [z3.Not(table)], pv, conc("sites_inverse"))
    k2 = zi(site_num(lat, tuple(Qv)))
    R.ob("site_num_injective", dom_p + dom_q + [z3.Not(same(tuple(P), tuple(Qv))), k == k2], pv + qv, conc("site_num_injective"))
    R.closed("sites_distinct_and_in_range", len(set(map(tuple, lat.sites))) == n and all(all(0 <= c < d for c, d in zip(s, D)) for s in lat.sites))

    # --- neighbour relation (path exploration: the triangular lattice branches on the row parity)
    def explore(label, fn, extra_vars=()):
        ex = Explorer(pre=dom_p + dom_q)
        npaths = 0
        for pc, post in ex.paths(fn):
            npaths += 1
            R.ob(f"{label}/path{npaths}", dom_p + dom_q + pc + [z3.Not(post)], pv + qv, conc(label))
        R.res["paths"] += npaths

    def sym_prop():
        nb = nbrs(lat, tuple(P))
        conj = []
        for t in nb:
            back = nbrs(lat, t)
            conj.append(z3.Implies(in_bounds(t, D), z3.Or(*[same(u, tuple(P)) for u in back])))
        return z3.And(*conj)

    # an open triangular lattice staggers odd/even rows, which is only consistent with the periodic wrap of the rows when the
    # number of rows is even (the statement qualifies the open boundary the same way): symmetry is claimed for that case
    if periodic or D[0] % 2 == 0:
        explore("neighbour_symmetric", sym_prop)
    if periodic:
        explore("neighbour_valid", lambda: z3.And(*[in_bounds(t, D) for t in nbrs(lat, tuple(P))]))
    if minside >= 3:
        explore("neighbour_irreflexive", lambda: z3.And(*[z3.Not(same(t, tuple(P))) for t in nbrs(lat, tuple(P))]))

    # --- adjacency matrix
    if has_adj:
        R.closed("adjacency_symmetric", bool((adj == adj.T).all()))
        if minside >= 3:
            R.closed("adjacency_zero_diagonal", bool((np.diag(adj) == 0).all()))
        deg = adj.sum(axis=1)
        if periodic and minside >= 3:
            R.closed("adjacency_regular", bool((deg == lat.coord_num).all()), f"degrees {sorted(set(deg.tolist()))} coord_num {lat.coord_num}")
        if not periodic and D[0] % 2 == 0:
            R.closed("adjacency_degree_bound_open", bool((deg <= lat.coord_num).all()), f"max degree {deg.max()} coord_num {lat.coord_num}")
        ones = [(i, j) for i in range(n) for j in range(n) if adj[i, j] == 1]

        def adj_prop():
            rel = z3.Or(z3.Or(*[z3.And(in_bounds(t, D), same(t, tuple(Qv))) for t in nbrs(lat, tuple(P))]),
                        z3.Or(*[z3.And(in_bounds(t, D), same(t, tuple(P))) for t in nbrs(lat, tuple(Qv))]))
            entry = z3.Or(*[z3.And(k == i, k2 == j) for i, j in ones]) if ones else z3.BoolVal(False)
            return entry == rel

        explore("adjacency_matches_neighbours", adj_prop)

    # --- pytree round trip / hash / equality with symbolic pass-through attribute values
    _shim(False)
    roundtrip(R, spec, lat)


def deep_eq(a, b):
    """z3 Bool: a equals b (SI leaves compared symbolically, containers structurally)"""
    if isinstance(a, SI) or isinstance(b, SI):
        if isinstance(a, (tuple, list)) or isinstance(b, (tuple, list)):
            return z3.BoolVal(False)
        try:
            return px.zi(a) == px.zi(b)
        except TypeError:
            return z3.BoolVal(False)
    if isinstance(a, (tuple, list)) and isinstance(b, (tuple, list)):
        if len(a) != len(b):
            return z3.BoolVal(False)
        return z3.And(*[deep_eq(x, y) for x, y in zip(a, b)]) if a else z3.BoolVal(True)
    if isinstance(a, (tuple, list)) != isinstance(b, (tuple, list)):
        return z3.BoolVal(False)
    try:
        return z3.BoolVal(bool(a == b))
    except Exception:
        return z3.BoolVal(False)


def roundtrip(R, spec, lat):
    import jax
    from ad_afqmc import lattices
    kind = spec["kind"]
    cn = SI("coord_num")
    hs = tuple(SI(f"hop{i}") for i in range(4 if kind == "grid" else 2))
    if kind == "chain":
        sym = lattices.one_dimensional_chain(spec["n"], hop_signs=hs, coord_num=cn)
    elif kind == "grid":
        sym = lattices.two_dimensional_grid(spec["lx"], spec["ly"], hop_signs=hs, coord_num=cn)
    elif kind == "tri":
        sym = lattices.triangular_grid(spec["lx"], spec["ly"], coord_num=cn, open_x=bool(spec.get("open_x", False)))
    else:
        sym = lattices.three_dimensional_grid(spec["lx"], spec["ly"], spec["lz"], coord_num=cn)
    leaves, treedef = jax.tree_util.tree_flatten(sym)
    rt = jax.tree_util.tree_unflatten(treedef, leaves)
    wv = [cn.e] + [h.e for h in hs]
    for f in dc_fields(sym):
        a, b = getattr(sym, f.name), getattr(rt, f.name)
        eq = deep_eq(a, b)
        label = f"roundtrip_field:{f.name}"

        def conc(w, fname=f.name):
            # concrete replay: non-default attribute values through the real round trip
            kw = {"coord_num": 7}
            if kind in ("chain", "grid"):
                kw["hop_signs"] = tuple(float(i + 2) for i in range(len(hs)))
            c = make_with(spec, kw)
            l2, td = jax.tree_util.tree_flatten(c)
            r2 = jax.tree_util.tree_unflatten(td, l2)
            return getattr(c, fname) != getattr(r2, fname)
        R.ob(label, [z3.Not(eq)], wv, conc)
    # concrete: same adjacency, equality and hash after the round trip (non-default attribute values)
    kw = {"coord_num": 5}
    if kind in ("chain", "grid"):
        kw["hop_signs"] = tuple(float(i + 2) for i in range(len(hs)))
    c = make_with(spec, kw)
    l2, td = jax.tree_util.tree_flatten(c)
    r2 = jax.tree_util.tree_unflatten(td, l2)
    R.closed("roundtrip_equal", bool(c == r2), "lattice != round-tripped lattice (non-default attributes)")
    R.closed("roundtrip_hash", hash(c) == hash(r2))
    if hasattr(c, "create_adjacency_matrix"):
        R.closed("roundtrip_same_adjacency", bool((np.asarray(c.create_adjacency_matrix()) == np.asarray(r2.create_adjacency_matrix())).all()))
    # through jit (the way a lattice is used as a static/pytree argument)
    try:
        out = jax.jit(lambda l: l)(c)
        R.closed("roundtrip_through_jit", bool(out == c))
    except Exception as ex:
        R.closed("roundtrip_through_jit", False, f"{type(ex).__name__}: {ex}")


def make_with(spec, kw):
    from ad_afqmc import lattices
    k = spec["kind"]
    if k == "chain":
        return lattices.one_dimensional_chain(spec["n"], **kw)
    if k == "grid":
        return lattices.two_dimensional_grid(spec["lx"], spec["ly"], **kw)
    if k == "tri":
        return lattices.triangular_grid(spec["lx"], spec["ly"], open_x=bool(spec.get("open_x", False)), **kw)
    return lattices.three_dimensional_grid(spec["lx"], spec["ly"], spec["lz"], **kw)


def cases(tier):
    out = []
    hi1, hi2, hi3 = (8, 4, 3) if tier == "quick" else (12, 6, 4)
    for n in range(2, hi1 + 1):
        out.append({"kind": "chain", "n": n})
    for lx, ly in itertools.product(range(2, hi2 + 1), repeat=2):
        out.append({"kind": "grid", "lx": lx, "ly": ly})
        out.append({"kind": "tri", "lx": lx, "ly": ly, "open_x": 0})
        out.append({"kind": "tri", "lx": lx, "ly": ly, "open_x": 1})
    for lx, ly, lz in itertools.product(range(2, hi3 + 1), repeat=3):
        out.append({"kind": "cubic", "lx": lx, "ly": ly, "lz": lz})
    return out


def replay(data):
    w = data.get("witness", {})
    try:
        bad = concrete_eval(data["case_args"], data["label"].split("/")[0], w)
    except Exception as ex:
        return {"violates": True, "summary": f"{type(ex).__name__}: {ex}"}
    return {"violates": bool(bad), "witness": w}
