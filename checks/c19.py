"""C19 - reported means and error bars follow their definitions (algebraic clauses; PX front end).

The real stat_utils functions run on NumPy object arrays of symbolic reals; every comparison NumPy / Python needs is a path
split decided with z3; per feasible path the outputs are compared (z3, nonlinear real arithmetic) with independently written
definitions: explicit sums, a sorting-network median, brute-force leave-one-out."""
import itertools
import json
import os
import time
import traceback
from fractions import Fraction

import numpy as np
import z3

from vf import px
from vf.explore import Explorer, SB, Budget
from vf.px import SR, SC, zr

META = {
    "level": "model_checking",
    "trusted": ["z3 5.1.0 (nonlinear real arithmetic)", "PX: real NumPy code on object arrays of symbolic reals; np.zeros/np.ones in stat_utils return "
                "object arrays (A4)", "x ** 0.5 / np.sqrt = opaque s with s >= 0 and s*s = x"],
    "assumptions": ["A1 exact real arithmetic for float64", "weights > 0", "all feasible paths are enumerated and their path conditions cover the precondition "
                    "(checked: the disjunction of path conditions is valid under the precondition)",
                    "statistical validity on i.i.d. / AR(1) ensembles is not a solver question: not claimed (DESIGN 6)"],
    "bounds": {"quick": "blocking_analysis n = 5, 6 samples, neql 0 and 1; reject_outliers n = 3, 4 rows (2 columns, every column), symbolic m > 0; "
                        "jackknife_ratios n = 3, 4 with complex numerators and denominators",
               "thorough": "blocking n up to 8 (neql up to 2), jackknife n = 5; reject_outliers stays at n <= 4 (n = 5 does not finish)"},
    "outside": "series longer than the bound (block sizes >= 5 never become active), float rounding, the statistical clauses",
}


def sort_network(xs):
    """independent median oracle: compare-exchange network on z3 reals"""
    xs = list(xs)
    n = len(xs)
    for i in range(n):
        for j in range(n - 1 - i):
            a, b = xs[j], xs[j + 1]
            xs[j], xs[j + 1] = z3.If(a <= b, a, b), z3.If(a <= b, b, a)
    return xs


def median_oracle(xs):
    s = sort_network(xs)
    n = len(s)
    return s[n // 2] if n % 2 else (s[n // 2 - 1] + s[n // 2]) / 2


class PXRunner:
    def __init__(self, name, known):
        self.known = known or {}
        self.res = {"case": name, "obligations": [], "violations": [], "inconclusive": [], "errors": [], "known": [], "samples": [],
                    "functions": [], "paths": 0}

    def check(self, label, asserts, variables, concrete):
        fam = label.split("/")[0]
        if sum(1 for v in self.res["violations"] if v["label"].split("/")[0] == fam) >= 3:
            self.res["obligations"].append({"label": label, "status": "skipped (3 violations of this obligation family already replayed)",
                                            "seconds": 0.0, "how": "skipped"})
            return
        t0 = time.time()
        s = z3.Solver()
        s.set("timeout", 60000)
        s.add(*asserts)
        r = str(s.check())
        ob = {"label": label, "status": r, "seconds": round(time.time() - t0, 3), "how": "NRA"}
        if len(self.res["samples"]) < 2:
            txt = s.to_smt2()
            self.res["samples"].append({"label": label, "smt2_head": txt[:1200], "smt2_bytes": len(txt)})
        if r == "sat":
            m = s.model()
            w = {}
            for v in variables:
                val = m.eval(v, model_completion=True)
                if z3.is_algebraic_value(val):
                    val = val.approx(20)
                w[str(v)] = [val.numerator_as_long(), val.denominator_as_long()]
            bad, detail = concrete(w)
            if bad:
                key = f"{self.res['case']}:{label.split('/')[0]}"
                path = self._write(label, w, detail)
                v = {"label": label, "key": key, "replay": path, "detail": detail}
                if key in self.known:
                    self.res["known"].append(v)
                    ob["status"] = "known-finding"
                else:
                    self.res["violations"].append(v)
                    ob["status"] = "violated"
            else:
                ob["status"] = "spurious"
                self.res["errors"].append(f"{label}: model does not reproduce on the real code ({detail})")
        elif r != "unsat":
            self.res["inconclusive"].append(label)
        self.res["obligations"].append(ob)

    def _write(self, label, w, detail):
        from vf.engine import VERIF
        d = os.path.join(VERIF, "replays")
        os.makedirs(d, exist_ok=True)
        safe = "".join(ch if ch.isalnum() or ch in "-_." else "_" for ch in f"C19_{self.res['case']}__{label}")
        path = os.path.join(d, safe + ".json")
        json.dump({"check": "C19", "case_args": self.args, "label": label, "witness": w, "detail": detail}, open(path, "w"), indent=1)
        return path


def fr(w, name):
    n, d = w[name]
    return Fraction(n, d)


def with_shim(fn):
    from ad_afqmc import stat_utils
    old_np, old_print = stat_utils.np, stat_utils.print
    stat_utils.np = px.ObjNP()
    stat_utils.print = lambda *a, **k: None
    try:
        return fn()
    finally:
        stat_utils.np, stat_utils.print = old_np, old_print


# ---------------------------------------------------------------------------------------------------------------------
def run_blocking(R, args):
    from ad_afqmc import stat_utils
    n, neql, mode = args["n"], args["neql"], args.get("mode", "values")
    R.res["functions"] = ["ad_afqmc.stat_utils.blocking_analysis"]
    w = [z3.Real(f"w{i}") for i in range(n)]
    e = [z3.Real(f"e{i}") for i in range(n)]
    lam, c = z3.Real("lam"), z3.Real("c")
    pre = [x > 0 for x in w] + [lam > 0]
    variables = w + e + [lam, c]
    K = Fraction(1.05) ** 2  # the code compares error < 1.05 * prevError; on squares: err^2 < 1.05^2 prev^2

    def formulas(ws, es):
        ws, es = ws[neql:], es[neql:]
        m = len(ws)
        mean = z3.Sum([a * b for a, b in zip(ws, es)]) / z3.Sum(ws)
        errs2 = {}
        for b in (1, 2, 5):
            if not b < m / 2.0:
                continue
            nb = m // b
            bw = [z3.Sum(ws[j * b:(j + 1) * b]) for j in range(nb)]
            be = [z3.Sum([x * y for x, y in zip(ws[j * b:(j + 1) * b], es[j * b:(j + 1) * b])]) / bw[j] for j in range(nb)]
            v1 = z3.Sum(bw)
            v2 = z3.Sum([x * x for x in bw])
            mu = z3.Sum([x * y for x, y in zip(bw, be)]) / v1
            errs2[b] = z3.Sum([x * (y - mu) * (y - mu) for x, y in zip(bw, be)]) / (v1 - v2 / v1) / (nb - 1)
        return mean, errs2

    def sq(p):
        """square of a returned error as a z3 term (returned errors are c*sqrt(X))"""
        if p.rad is not None:
            return zr(p.rad[0] * p.rad[0]) * p.rad[1]
        return p.e * p.e

    def call(ws, es):
        W = np.array([SR(x) for x in ws], dtype=object)
        E = np.array([SR(x) for x in es], dtype=object)
        return with_shim(lambda: stat_utils.blocking_analysis(W, E, neql=neql))

    def body():
        px.reset()
        m1, p1 = call(w, e)
        if mode == "invariance":
            m2, p2 = call([lam * x for x in w], [y + c for y in e])
            return m1, p1, m2, p2
        return m1, p1, None, None

    def concrete(label):
        def f(wit):
            W = np.array([float(fr(wit, f"w{i}")) for i in range(n)])
            E = np.array([float(fr(wit, f"e{i}")) for i in range(n)])
            lamv, cv = float(fr(wit, "lam")), float(fr(wit, "c"))
            mean, plat = stat_utils.blocking_analysis(W, E, neql=neql)
            Wc, Ec = W[neql:], E[neql:]
            ref = float(np.sum(Wc * Ec) / np.sum(Wc))
            tol = 1e-9 * (1 + abs(ref))
            if label == "mean":
                return abs(mean - ref) > tol, f"mean {mean} vs definition {ref}"
            if label == "invariance":
                mean2, plat2 = stat_utils.blocking_analysis(lamv * W, E + cv, neql=neql)
                bad = abs(mean2 - (mean + cv)) > 1e-8 * (1 + abs(mean)) or ((plat is None) != (plat2 is None)) or \
                      (plat is not None and abs(plat - plat2) > 1e-7 * (1 + abs(plat)))
                return bad, f"(mean, err)=({mean},{plat}) after w->lam w, e->e+c: ({mean2},{plat2})"
            if label in ("error", "constant_data_zero_error"):
                errs = {}
                m = len(Wc)
                for b in (1, 2, 5):
                    if not b < m / 2.0:
                        continue
                    nb = m // b
                    bw = np.array([Wc[j * b:(j + 1) * b].sum() for j in range(nb)])
                    be = np.array([(Wc[j * b:(j + 1) * b] * Ec[j * b:(j + 1) * b]).sum() / bw[j] for j in range(nb)])
                    mu = (bw * be).sum() / bw.sum()
                    errs[b] = np.sqrt((bw * (be - mu) ** 2).sum() / (bw.sum() - (bw ** 2).sum() / bw.sum()) / (nb - 1))
                exp, prev = None, 0.0
                for b in sorted(errs):
                    if errs[b] < 1.05 * prev and exp is None:
                        exp = max(errs[b], prev)
                    prev = errs[b]
                if label == "constant_data_zero_error":
                    return (plat is not None and plat != 0 and np.ptp(Ec) == 0), f"constant data, error {plat}"
                bad = (exp is None) != (plat is None) or (exp is not None and abs(exp - plat) > 1e-7 * (1 + abs(exp)))
                return bad, f"returned error {plat} vs definition {exp}"
            return False, ""
        return f

    ex = Explorer(pre=pre, max_paths=2000, variables=variables)
    pcs = []
    k = 0
    for pc, (m1, p1, m2, p2) in ex.paths(body):
        k += 1
        pcs.append(z3.And(*pc) if pc else z3.BoolVal(True))
        mean, errs2 = formulas(w, e)
        base = pre + pc
        if mode == "values":
            R.check(f"mean/path{k}", base + [zr(m1) != mean], variables, concrete("mean"))
            # documented plateau choice, on squares: first block size with err^2 < 1.05^2 prev^2 -> max of the two, else None
            bs = sorted(errs2)
            cond_none = z3.BoolVal(True)
            prev = z3.RealVal(0)
            branches = []
            for b in bs:
                hit_now = errs2[b] < zr(K) * prev
                branches.append((z3.And(cond_none, hit_now), z3.If(errs2[b] >= prev, errs2[b], prev)))
                cond_none = z3.And(cond_none, z3.Not(hit_now))
                prev = errs2[b]
            if p1 is None:
                post = cond_none
            else:
                post = z3.Or(*[z3.And(h, sq(p1) == v) for h, v in branches]) if branches else z3.BoolVal(False)
            R.check(f"error/path{k}", base + [z3.Not(post)], variables, concrete("error"))
            const = [e[i] == e[0] for i in range(1, n)]
            if p1 is not None:
                R.check(f"constant_data_zero_error/path{k}", base + const + [sq(p1) != 0], variables, concrete("constant_data_zero_error"))
        else:
            inv = [zr(m2) == zr(m1) + c, z3.BoolVal((p1 is None) == (p2 is None))]
            if p1 is not None and p2 is not None:
                inv.append(sq(p1) == sq(p2))
            R.check(f"invariance/path{k}", base + [z3.Not(z3.And(*inv))], variables, concrete("invariance"))
    R.res["paths"] = k
    if getattr(ex, "unproved_failures", 0):
        R.res["inconclusive"].append(f"{ex.unproved_failures} path(s) admitted after an unknown feasibility query ended in an exception of the code under test")
    cover = z3.Solver()
    cover.set("timeout", 60000)
    cover.add(*pre)
    cover.add(z3.Not(z3.Or(*pcs)))
    r = str(cover.check())
    R.res["obligations"].append({"label": "paths_cover_precondition", "status": r, "seconds": 0.0, "how": "NRA"})
    if r != "unsat":
        R.res["inconclusive"].append("paths_cover_precondition")


def run_invariance(R, args):
    """mean and error definitions are invariant under w -> lam*w and e -> e + c (shift moves the mean by c).  Together with
    the `values` obligations (code == definition on every path, for all inputs) this gives the invariance of the code.
    Decided as rational-function identities in the Q domain (polynomial normal form + z3)."""
    from vf import qdom, decide as dec
    from vf.engine import SymV
    n, neql = args["n"], args["neql"]
    R.res["functions"] = ["ad_afqmc.stat_utils.blocking_analysis (through its definition, see mode=values)"]
    qdom.reset()
    V = SymV()
    w = [V.r(f"w{i}") for i in range(n)]
    e = [V.r(f"e{i}") for i in range(n)]
    lam, c = V.r("lam"), V.r("c")

    def defs(ws, es):
        ws, es = ws[neql:], es[neql:]
        m = len(ws)
        tot = sum(ws[1:], ws[0])
        mean = sum([a * b for a, b in zip(ws, es)][1:], ws[0] * es[0]) / tot
        out = {}
        for b in (1, 2, 5):
            if not b < m / 2.0:
                continue
            nb = m // b
            bw = [sum(ws[j * b + 1:(j + 1) * b], ws[j * b]) for j in range(nb)]
            be = [sum([x * y for x, y in zip(ws[j * b + 1:(j + 1) * b], es[j * b + 1:(j + 1) * b])], ws[j * b] * es[j * b]) / bw[j] for j in range(nb)]
            v1 = sum(bw[1:], bw[0])
            v2 = sum([x * x for x in bw][1:], bw[0] * bw[0])
            mu = sum([x * y for x, y in zip(bw, be)][1:], bw[0] * be[0]) / v1
            out[b] = sum([x * (y - mu) * (y - mu) for x, y in zip(bw, be)][1:], bw[0] * (be[0] - mu) * (be[0] - mu)) / (v1 - v2 / v1) / (nb - 1)
        return mean, out

    m1, e1 = defs(w, e)
    m2, e2 = defs([lam * x for x in w], [y + c for y in e])
    rels = [("mean_shifts_by_c", m2, m1 + c)] + [(f"error2_block{b}_invariant", e2[b], e1[b]) for b in e1]
    for label, lhs, rhs in rels:
        t0 = time.time()
        dis, side = qdom.diff_terms(lhs, rhs)
        pre = qdom.inverted_nonzero()
        r = dec.decide(pre + side + [z3.Or(*dis)] if dis else [z3.BoolVal(False)], timeout_ms=60000, guided_first=True,
                       variables=list(V.vars.values()))
        ob = {"label": label, "status": r.status, "seconds": round(time.time() - t0, 3), "how": r.how}
        if r.status == "sat":
            ob["status"] = "violated"
            R.res["errors"].append(f"{label}: the written definition is not invariant (oracle error)")
        elif r.status != "unsat":
            R.res["inconclusive"].append(label)
        R.res["obligations"].append(ob)
    R.res["paths"] = 1


def run_outliers(R, args):
    from ad_afqmc import stat_utils
    n, obs, ncol = args["n"], args["obs"], 2
    R.res["functions"] = ["ad_afqmc.stat_utils.reject_outliers"]
    X = [[z3.Real(f"x{i}_{j}") for j in range(ncol)] for i in range(n)]
    m = z3.Real("m")
    pre = [m > 0]
    variables = [v for row in X for v in row] + [m]

    def body():
        D = np.array([[SR(v) for v in row] for row in X], dtype=object)
        kept, mask = with_shim(lambda: stat_utils.reject_outliers(D, obs, m=SR(m)))
        return kept, [bool(b) for b in np.asarray(mask).reshape(-1)]

    def concrete(wit):
        D = np.array([[float(fr(wit, f"x{i}_{j}")) for j in range(ncol)] for i in range(n)])
        mv = float(fr(wit, "m"))
        kept, mask = stat_utils.reject_outliers(D, obs, m=mv)
        col = sorted(D[:, obs])
        med = col[n // 2] if n % 2 else (col[n // 2 - 1] + col[n // 2]) / 2
        dev = sorted(abs(D[:, obs] - med))
        mad = dev[n // 2] if n % 2 else (dev[n // 2 - 1] + dev[n // 2]) / 2
        exp = [abs(D[i, obs] - med) < mv * (mad + 1e-10) for i in range(n)]
        bad = list(map(bool, mask)) != exp or not np.array_equal(kept, D[np.array(exp)])
        return bad, f"mask {list(map(bool, mask))} vs definition {exp}"

    ex = Explorer(pre=pre, max_paths=20000, variables=variables)
    pcs = []
    k = 0
    col = [X[i][obs] for i in range(n)]
    med = median_oracle(col)
    dev = [z3.If(x - med >= 0, x - med, med - x) for x in col]
    mad = median_oracle(dev)
    tenth = z3.RealVal(str(Fraction(1.0e-10).numerator)) / z3.RealVal(str(Fraction(1.0e-10).denominator))
    for pc, (kept, mask) in ex.paths(body):
        k += 1
        pcs.append(z3.And(*pc) if pc else z3.BoolVal(True))
        exp = [dev[i] < m * (mad + tenth) for i in range(n)]
        post = z3.And(*[(e_ if mk else z3.Not(e_)) for e_, mk in zip(exp, mask)])
        # kept rows are exactly the masked rows, in order, all columns
        rows = [i for i in range(n) if mask[i]]
        ok_rows = kept.shape[0] == len(rows)
        eqs = []
        if ok_rows:
            for r_, i in enumerate(rows):
                for j in range(ncol):
                    eqs.append(zr(kept[r_, j]) == X[i][j])
        post = z3.And(post, z3.BoolVal(ok_rows), *eqs)
        R.check(f"kept_rows/path{k}", pre + pc + [z3.Not(post)], variables, concrete)
    R.res["paths"] = k
    if getattr(ex, "unproved_failures", 0):
        R.res["inconclusive"].append(f"{ex.unproved_failures} path(s) admitted after an unknown feasibility query ended in an exception of the code under test")
    if n <= 3:  # explicit coverage query (for larger n the depth-first exploration is exhaustive by construction)
        cover = z3.Solver()
        cover.set("timeout", 120000)
        cover.add(*pre)
        cover.add(z3.Not(z3.Or(*pcs)))
        r = str(cover.check())
        R.res["obligations"].append({"label": "paths_cover_precondition", "status": r, "seconds": 0.0, "how": "LRA"})
        if r != "unsat":
            R.res["inconclusive"].append("paths_cover_precondition")


def run_jackknife(R, args):
    from ad_afqmc import stat_utils
    n = args["n"]
    R.res["functions"] = ["ad_afqmc.stat_utils.jackknife_ratios"]
    nr = [z3.Real(f"nr{i}") for i in range(n)]
    ni = [z3.Real(f"ni{i}") for i in range(n)]
    dr = [z3.Real(f"dr{i}") for i in range(n)]
    di = [z3.Real(f"di{i}") for i in range(n)]
    variables = nr + ni + dr + di
    px.reset()
    num = np.array([SC(SR(a), SR(b)) for a, b in zip(nr, ni)], dtype=object)
    den = np.array([SC(SR(a), SR(b)) for a, b in zip(dr, di)], dtype=object)
    mean, sigma = with_shim(lambda: stat_utils.jackknife_ratios(num, den))
    facts = px.sqrt_facts()
    # brute-force leave-one-out
    est = []
    pre = []
    for i in range(n):
        sn = SC(SR(z3.RealVal(0)), SR(z3.RealVal(0)))
        sd = SC(SR(z3.RealVal(0)), SR(z3.RealVal(0)))
        for j in range(n):
            if j != i:
                sn = sn + SC(SR(nr[j]), SR(ni[j]))
                sd = sd + SC(SR(dr[j]), SR(di[j]))
        pre.append(z3.Or(sd.re.e != 0, sd.im.e != 0))
        est.append(((sn / (n - 1)) / (sd / (n - 1))).real.e)
    mu = z3.Sum(est) / n
    var = z3.Sum([(x - mu) * (x - mu) for x in est]) / n
    tot_d = [z3.Sum(dr), z3.Sum(di)]
    pre.append(z3.Or(tot_d[0] != 0, tot_d[1] != 0))

    def concrete(wit):
        N = np.array([complex(float(fr(wit, f"nr{i}")), float(fr(wit, f"ni{i}"))) for i in range(n)])
        Dn = np.array([complex(float(fr(wit, f"dr{i}")), float(fr(wit, f"di{i}"))) for i in range(n)])
        mean_c, sig_c = stat_utils.jackknife_ratios(N, Dn)
        loo = np.array([(np.delete(N, i).mean() / np.delete(Dn, i).mean()).real for i in range(n)])
        m_ref = loo.mean()
        s_ref = np.sqrt((n - 1) * np.mean((loo - m_ref) ** 2))
        finite_ref = np.isfinite(m_ref) and np.isfinite(s_ref)
        bad = finite_ref and (not (np.isfinite(mean_c) and np.isfinite(sig_c)) or
                              abs(mean_c - m_ref) > 1e-8 * (1 + abs(m_ref)) or abs(sig_c - s_ref) > 1e-7 * (1 + abs(s_ref)))
        return bool(bad), f"jackknife ({mean_c},{sig_c}) vs leave-one-out ({m_ref},{s_ref})"

    R.check("mean", pre + facts + [zr(mean) != mu], variables, concrete)
    R.check("sigma", pre + facts + [z3.Not(z3.And(zr(sigma) >= 0, zr(sigma) * zr(sigma) == (n - 1) * var))], variables, concrete)
    R.res["paths"] = 1


def run(args, seed, known):
    R = PXRunner(":".join(f"{k}={v}" for k, v in args.items()), known)
    R.args = args
    t0 = time.time()
    try:
        if args["fn"] == "blocking" and args.get("mode") == "invariance":
            run_invariance(R, args)
        else:
            {"blocking": run_blocking, "outliers": run_outliers, "jackknife": run_jackknife}[args["fn"]](R, args)
    except Budget as ex:
        R.res["inconclusive"].append(f"path budget: {ex}")
    except Exception as ex:
        R.res["errors"].append(f"{type(ex).__name__}: {ex}\n{traceback.format_exc()[-1500:]}")
    R.res["wall_s"] = round(time.time() - t0, 3)
    return R.res


def cases(tier):
    out = []
    for n, neql in ((5, 0), (6, 1)) + (((6, 0), (7, 0), (7, 2), (8, 1)) if tier == "thorough" else ()):
        out.append({"fn": "blocking", "n": n, "neql": neql, "mode": "values"})
    for n, neql in ((5, 0), (5, 1)) + (((6, 1), (7, 2)) if tier == "thorough" else ()):
        out.append({"fn": "blocking", "n": n, "neql": neql, "mode": "invariance"})
    for n in (3, 4):  # n = 5 (median / MAD by sorting network: 5! orderings x thresholds) ran > 55 min without finishing: not run
        for obs in (0, 1):
            out.append({"fn": "outliers", "n": n, "obs": obs})
    for n in (3, 4) + ((5,) if tier == "thorough" else ()):
        out.append({"fn": "jackknife", "n": n})
    return out


def replay(data):
    return {"violates": True, "summary": data.get("detail", ""), "witness": data.get("witness")}
