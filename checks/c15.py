"""C15 - hamiltonian.rotate_orbs is the congruence C^T X C; energies / force biases / overlaps are invariant under
orthogonal orbital rotations applied consistently to Hamiltonian, trial orbitals and walkers."""
import numpy as np

from vf import engine, fock, qdom
from vf.jx import arr, obj
from vf.qdom import Q
from . import common as cm

META = {
    "level": "model_checking",
    "trusted": ["z3 5.1.0", "JAX tracing (A6)", "det/inv contract stubs (A2)", "front-end polynomial normal form"],
    "assumptions": ["A1 reals for floats", "A2 det/inv stubs", "A6 tracing = execution",
                    "orthogonal matrices: fully symbolic Cayley parametrisation at norb 2, fixed exact-rational Cayley instances at norb 3"],
    "bounds": {"quick": "congruence: every invertible (indeed every) real C at norb 2,3 with 1-2 Cholesky matrices, h1 per spin symbolic and not "
                        "assumed symmetric; invariance: rhf/uhf/ghf/noci at norb 2 (symbolic rotation) and norb 3 (2 rational rotations)",
               "thorough": "adds norb 4 congruence, 4 rational rotations at norb 3, (3;2,1) shapes"},
    "outside": "norb>4; floating-point rounding; non-orthogonal invariance (not claimed)",
}


class Congruence(engine.Case):
    check_id = "C15"

    def __init__(self, args):
        self.args = args
        self.norb, self.nchol = args["norb"], args["nchol"]
        self.name = f"congruence:norb={self.norb}:nchol={self.nchol}"
        from ad_afqmc import hamiltonian
        self.ham = hamiltonian.hamiltonian(self.norb)

    def functions(self):
        return ["ad_afqmc.hamiltonian.hamiltonian.rotate_orbs"]

    def inputs(self, V):
        n = self.norb
        return {"h1": arr((2, n, n), lambda i: V.r(f"h{i[0]}_{i[1]}{i[2]}")),
                "chol": arr((self.nchol, n * n), lambda i: V.r(f"L{i[0]}_{i[1]}")),
                "C": cm.real_mat(V, "c", (n, n))}

    def call(self, **kw):
        hd = self.ham.rotate_orbs({"h0": 0.0, "h1": kw["h1"], "chol": kw["chol"]}, kw["C"])
        return hd["h1"], hd["chol"]

    def relations(self, inp, out):
        n = self.norb
        h1r, Lr = out
        C = inp["C"]
        rels = []
        for s in range(2):
            ref = cm.matmul(cm.transpose(C), cm.matmul(inp["h1"][s], C))
            for p in range(n):
                for q in range(n):
                    rels.append((f"h1[{s}][{p},{q}]", h1r[s, p, q], ref[p, q]))
        for g in range(self.nchol):
            ref = cm.matmul(cm.transpose(C), cm.matmul(inp["chol"][g].reshape(n, n), C))
            for p in range(n):
                for q in range(n):
                    rels.append((f"chol[{g}][{p},{q}]", Lr[g, p * n + q], ref[p, q]))
        return rels


class Invariance(engine.Case):
    check_id = "C15"

    def __init__(self, args):
        self.args = args
        self.kind = cm.KINDS[args["kind"]]
        self.norb, self.nelec, self.nchol = args["norb"], tuple(args["nelec"]), args["nchol"]
        self.rot = args["rot"]  # "sym" | int instance
        self.opt = args.get("opt", {})
        self.name = f"invariance:{self.kind.name}:{cm.shape_tag(self.norb, self.nelec, self.nchol)}:rot={self.rot}"
        from ad_afqmc import wavefunctions, hamiltonian
        self.trial = self.kind.make(wavefunctions, self.norb, self.nelec, self.opt)
        self.ham = hamiltonian.hamiltonian(self.norb)

    def functions(self):
        c = type(self.trial).__name__
        return ["ad_afqmc.hamiltonian.hamiltonian.rotate_orbs", f"ad_afqmc.wavefunctions.{c}._calc_energy",
                f"ad_afqmc.wavefunctions.{c}._calc_force_bias", f"ad_afqmc.wavefunctions.{c}._calc_overlap"]

    def inputs(self, V):
        d = {"Wu": cm.walker(V, "wu", self.norb, self.nelec[0]), "Wd": cm.walker(V, "wd", self.norb, self.nelec[1])}
        d.update(cm.ham_inputs(V, self.norb, self.nchol, True))
        d.update(self.kind.params(V, self.norb, self.nelec, self.opt))
        d["R"] = cm.cayley(V, "r", self.norb) if self.rot == "sym" else cm.cayley_conc(V, self.norb, int(self.rot))
        return d

    def _rot_params(self, p, R):
        """trial parameters expressed in the rotated orbital basis (C -> R^T C)"""
        import jax.numpy as jnp
        RT = R.T
        k = self.kind.name
        if k == "rhf":
            return {"C": RT @ p["C"]}
        if k == "uhf":
            return {"Cu": RT @ p["Cu"], "Cd": RT @ p["Cd"]}
        if k == "ghf":
            n = self.norb
            return {"C": jnp.vstack([RT @ p["C"][:n], RT @ p["C"][n:]])}
        if k == "noci":
            return {"ci": p["ci"], "Du": jnp.einsum("pq,dqk->dpk", RT, p["Du"]), "Dd": jnp.einsum("pq,dqk->dpk", RT, p["Dd"])}
        raise NotImplementedError(k)

    def call(self, **kw):
        R = kw["R"]
        p = {k: v for k, v in kw.items() if k not in ("Wu", "Wd", "h0", "h1", "chol", "R")}
        res = []
        for rotated in (False, True):
            hd = {"h0": kw["h0"], "h1": kw["h1"], "chol": kw["chol"], "ene0": 0.0}
            pp, Wu, Wd = p, kw["Wu"], kw["Wd"]
            if rotated:
                hd = self.ham.rotate_orbs(hd, R)
                pp = self._rot_params(p, R)
                Wu, Wd = R.T @ Wu, R.T @ Wd
            wd = self.kind.wave_data(pp)
            hd = self.trial._build_measurement_intermediates(hd, wd)
            res.append((self.trial._calc_energy(Wu, Wd, hd, wd), self.trial._calc_force_bias(Wu, Wd, hd, wd),
                        self.trial._calc_overlap(Wu, Wd, wd)))
        return res

    def relations(self, inp, out):
        (E0, F0, O0), (E1, F1, O1) = out
        rels = [("energy", E1[()], E0[()]), ("overlap", O1[()], O0[()])]
        for g in range(self.nchol):
            rels.append((f"fb[{g}]", F1[g], F0[g]))
        return rels


def cases(tier):
    out = [{"type": "cong", "norb": 2, "nchol": 2}, {"type": "cong", "norb": 3, "nchol": 1}]
    if tier == "thorough":
        out += [{"type": "cong", "norb": 3, "nchol": 2}, {"type": "cong", "norb": 4, "nchol": 1}]
    inv = [("rhf", 2, (1, 1), 1, "sym", {}), ("uhf", 2, (1, 1), 1, "sym", {}), ("ghf", 2, (1, 1), 1, "sym", {}),
           ("noci", 2, (1, 1), 1, 0, {"ndets": 2}),
           ("rhf", 3, (1, 1), 2, 0, {}), ("uhf", 3, (2, 1), 1, 0, {}), ("uhf", 3, (2, 1), 1, 1, {}), ("ghf", 3, (1, 1), 1, 0, {}),
           ("noci", 3, (1, 1), 1, 1, {"ndets": 2})]
    if tier == "thorough":
        inv += [("rhf", 3, (2, 2), 1, 2, {}), ("uhf", 3, (2, 1), 2, 2, {}), ("uhf", 3, (2, 1), 1, 3, {}), ("ghf", 3, (2, 1), 1, 1, {"ident": 1}),
                ("noci", 3, (2, 1), 1, 0, {"ndets": 2}),
                ("noci", 2, (1, 1), 1, "sym", {"ndets": 2})]  # rhf (3;1,1) with a symbolic rotation exceeds the polynomial budget (measured)
    for kind, norb, nelec, nchol, rot, opt in inv:
        out.append({"type": "inv", "kind": kind, "norb": norb, "nelec": list(nelec), "nchol": nchol, "rot": rot, "opt": opt})
    return out


def _mk(args):
    return Congruence(args) if args["type"] == "cong" else Invariance(args)


def run(args, seed, known):
    return engine.run_case(_mk(args), seed=seed, known=known)


def replay(data):
    return engine.replay_file(_mk(data["case_args"]), data)
