"""Measurement harness shared by C02 (local energy) and C03 (force bias).

call():  ham_data -> trial._build_measurement_intermediates(ham_data, wave_data) -> trial._calc_<q>[_restricted]
         exactly as hamiltonian.build_measurement_intermediates + trial.calc_<q> compose them, so rot_h1, rot_chol,
         lci1, h1_b, chol_b, normal_ordering_term are computed by the real code from symbolic h1 / chol.
oracle:  <psi_T| O |phi> with O applied operator by operator in Fock space (vf.fock).
relations:  q_code * <psi_T|phi>_code == <psi_T|O|phi>   and   <psi_T|phi>_code == <psi_T|phi>  (self-contained).
"""
from fractions import Fraction

import numpy as np

from vf import engine, fock, qdom
from vf.jx import arr, obj
from vf.qdom import Q
from . import common as cm


def blockdiag(A, B, zero):
    n = A.shape[0]
    out = obj((2 * n, 2 * n))
    for i in range(2 * n):
        for j in range(2 * n):
            out[i, j] = zero
    out[:n, :n] = A
    out[n:, n:] = B
    return out


def basis_T(kind, p, norb, one):
    """one-particle basis in which kind.state() is written, as a 2norb x 2norb spin-orbital matrix T
    (columns = trial basis orbitals in the original basis); None for the original basis."""
    zero = one * 0
    if kind.name in ("UCISD", "ucisd"):
        I = obj((norb, norb))
        for i in range(norb):
            for j in range(norb):
                I[i, j] = one if i == j else zero
        return blockdiag(I, p["moB"], zero)
    if kind.name == "GCISD":
        return p["mo"]
    return None


def is_identity(T):
    n = T.shape[0]
    for i in range(n):
        for j in range(n):
            v = T[i, j]
            c = (v.isconst() and v.c == ((1 if i == j else 0), 0)) if isinstance(v, Q) else (v == (1 if i == j else 0))
            if not c:
                return False
    return True


def rot(T, M):
    """T^T M T"""
    return cm.matmul(cm.transpose(T), cm.matmul(M, T))


class MeasureCase(engine.Case):
    def __init__(self, args):
        self.args = args
        self.check_id = args["check_id"]
        self.quantity = args["quantity"]  # "energy" | "force_bias"
        self.kind = cm.KINDS[args["kind"]]
        self.norb, self.nelec, self.nchol = args["norb"], tuple(args["nelec"]), args["nchol"]
        self.opt = args.get("opt", {})
        self.entry = args.get("entry", "u")
        self.spin_dep = bool(args.get("spin_dep", False))
        self.name = f"{self.quantity}:{self.kind.name}:{cm.shape_tag(self.norb, self.nelec, self.nchol)}:{self.entry}:" + \
                    ("h1ab:" if self.spin_dep else "") + ",".join(f"{k}={v}" for k, v in sorted(self.opt.items()))
        self.timeout_s = args.get("timeout", 300)
        if self.kind.name in ("cisd", "cisd_faster", "ucisd") and self.quantity == "energy":
            self.validate_tol = 5e-5  # the code down-casts one contraction to complex64/float32 (A1)
        from ad_afqmc import wavefunctions
        self.trial = self.kind.make(wavefunctions, self.norb, self.nelec, self.opt)

    def functions(self):
        c = type(self.trial).__name__
        r = "_restricted" if self.entry == "r" else ""
        q = "_calc_energy" if self.quantity == "energy" else "_calc_force_bias"
        return [f"ad_afqmc.wavefunctions.{c}._build_measurement_intermediates", f"ad_afqmc.wavefunctions.{c}.{q}{r}",
                f"ad_afqmc.wavefunctions.{c}._calc_overlap{r}"]

    def inputs(self, V):
        d = {"Wu": cm.walker(V, "wu", self.norb, self.nelec[0])}
        if self.entry == "u":
            d["Wd"] = cm.walker(V, "wd", self.norb, self.nelec[1])
        d.update(cm.ham_inputs(V, self.norb, self.nchol, self.spin_dep))
        d.update(self.kind.params(V, self.norb, self.nelec, self.opt))
        return d

    HAM = ("h0", "h1", "chol")

    def _params(self, kw):
        return {k: v for k, v in kw.items() if k not in ("Wu", "Wd") + self.HAM}

    def call(self, **kw):
        wd = self.kind.wave_data(self._params(kw))
        hd = {"h0": kw["h0"], "h1": kw["h1"], "chol": kw["chol"], "ene0": 0.0}
        hd = self.trial._build_measurement_intermediates(hd, wd)
        if self.entry == "u":
            ov = self.trial._calc_overlap(kw["Wu"], kw["Wd"], wd)
            if self.quantity == "energy":
                q = self.trial._calc_energy(kw["Wu"], kw["Wd"], hd, wd)
            else:
                q = self.trial._calc_force_bias(kw["Wu"], kw["Wd"], hd, wd)
        else:
            ov = self.trial._calc_overlap_restricted(kw["Wu"], wd)
            if self.quantity == "energy":
                q = self.trial._calc_energy_restricted(kw["Wu"], hd, wd)
            else:
                q = self.trial._calc_force_bias_restricted(kw["Wu"], hd, wd)
        return q, ov

    def relations(self, inp, out):
        q, ov = out
        ov = ov[()]
        p = self._params(inp)
        norb = self.norb
        Wu = inp["Wu"]
        Wd = inp["Wd"] if self.entry == "u" else Wu[:, : self.nelec[1]]
        one = cm.fone(Wu[0, 0])
        psi = self.kind.state(p, norb, self.nelec)
        phi = cm.walker_state(self.kind, p, norb, self.nelec, Wu, Wd)
        ovo = fock.inner(psi, phi)
        rels = [("overlap", ov, ovo)]
        if isinstance(ov, Q):
            ov = qdom.recognize(ov)
        L = cm.chol3(inp, norb)
        h1 = inp["h1"]
        if self.entry == "r" or not self.spin_dep:
            pass
        T = basis_T(self.kind, p, norb, one)
        if T is not None and is_identity(T):
            T = None
        if T is None and self.kind.name == "GCISD":
            T = p["mo"]
        if T is None:
            if self.quantity == "energy":
                num = fock.inner(psi, fock.apply_H(norb, inp["h0"][()], h1, L, phi))
                rels.append(("energy", q[()] * ov, num))
            else:
                for g in range(self.nchol):
                    num = fock.inner(psi, fock.apply_onebody(norb, [L[g], L[g]], phi))
                    rels.append((f"fb[{g}]", q[g] * ov, num))
        else:
            zero = one * 0
            nso = 2 * norb
            Lso = [rot(T, blockdiag(L[g], L[g], zero)) for g in range(self.nchol)]
            if self.quantity == "energy":
                hso = rot(T, blockdiag(h1[0], h1[1], zero))
                num = fock.inner(psi, fock.apply_H_so(nso, inp["h0"][()], hso, Lso, phi))
                rels.append(("energy", q[()] * ov, num))
            else:
                for g in range(self.nchol):
                    num = fock.inner(psi, fock.apply_onebody_so(Lso[g], phi, nso))
                    rels.append((f"fb[{g}]", q[g] * ov, num))
        return rels


class BatchMeasureCase(engine.Case):
    """public batched API: trial.calc_<q>(walkers, ham_data, wave_data)[k] == single-walker routine on walker k,
    for every divisor n_batch of the walker count, both walker containers (all walkers distinct symbolic)"""

    def __init__(self, args):
        self.args = args
        self.check_id = args["check_id"]
        self.quantity = args["quantity"]
        self.kind = cm.KINDS[args["kind"]]
        self.norb, self.nelec, self.nchol = args["norb"], tuple(args["nelec"]), args["nchol"]
        self.nw, self.nb, self.container = args["n_walkers"], args["n_batch"], args["container"]
        self.opt = dict(args.get("opt", {}), n_batch=self.nb)
        if self.kind.name in ("cisd", "cisd_faster", "ucisd") and self.quantity == "energy":
            self.validate_tol = 5e-5
        self.name = f"batch-{self.quantity}:{self.kind.name}:{cm.shape_tag(self.norb, self.nelec, self.nchol)}:{self.container}:nw={self.nw}:nb={self.nb}"
        from ad_afqmc import wavefunctions
        self.trial = self.kind.make(wavefunctions, self.norb, self.nelec, self.opt)

    def functions(self):
        return [f"ad_afqmc.wavefunctions.wave_function.calc_{self.quantity}"]

    def inputs(self, V):
        d = {"Wu": arr((self.nw, self.norb, self.nelec[0]), lambda i: V.c(f"wu{i[0]}_{i[1]}{i[2]}"))}
        if self.container == "list":
            d["Wd"] = arr((self.nw, self.norb, self.nelec[1]), lambda i: V.c(f"wd{i[0]}_{i[1]}{i[2]}"))
        d.update(cm.ham_inputs(V, self.norb, self.nchol, False))
        d.update(self.kind.params(V, self.norb, self.nelec, self.opt))
        return d

    def call(self, **kw):
        wd = self.kind.wave_data({k: v for k, v in kw.items() if k not in ("Wu", "Wd", "h0", "h1", "chol")})
        hd = {"h0": kw["h0"], "h1": kw["h1"], "chol": kw["chol"], "ene0": 0.0}
        hd = self.trial._build_measurement_intermediates(hd, wd)
        t = self.trial
        q = self.quantity
        if self.container == "list":
            b = getattr(t, "calc_" + q)([kw["Wu"], kw["Wd"]], hd, wd)
            s = [getattr(t, "_calc_" + q)(kw["Wu"][k], kw["Wd"][k], hd, wd) for k in range(self.nw)]
        else:
            b = getattr(t, "calc_" + q)(kw["Wu"], hd, wd)
            s = [getattr(t, "_calc_" + q + "_restricted")(kw["Wu"][k], hd, wd) for k in range(self.nw)]
        return b, s

    def relations(self, inp, out):
        b, s = out
        rels = []
        for k in range(self.nw):
            if self.quantity == "energy":
                rels.append((f"walker{k}", b[k], s[k][()]))
            else:
                for g in range(self.nchol):
                    rels.append((f"walker{k}.fb[{g}]", b[k, g], s[k][g]))
        return rels


def batch_cases(check_id, quantity, tier):
    out = []
    for kind, norb, nelec, conts in (("uhf", 2, (1, 1), ["list", "array"]), ("rhf", 2, (1, 1), ["array", "list"]), ("noci", 2, (1, 1), ["list"]),
                                     ("cisd", 3, (1, 1), ["array"])):
        for nw in ((4,) if tier == "quick" else (2, 4, 6)):
            for nb in [d for d in range(1, nw + 1) if nw % d == 0]:
                for c in conts:
                    out.append({"type": "batch", "check_id": check_id, "quantity": quantity, "kind": kind, "norb": norb,
                                "nelec": list(nelec), "nchol": 2, "n_walkers": nw, "n_batch": nb, "container": c, "opt": {}})
    return out


def run(args, seed, known):
    cls = BatchMeasureCase if args.get("type") == "batch" else MeasureCase
    return engine.run_case(cls(args), seed=seed, known=known)


def replay(data):
    cls = BatchMeasureCase if data["case_args"].get("type") == "batch" else MeasureCase
    return engine.replay_file(cls(data["case_args"]), data)
