"""C02 - local energy = <psi_T|H|phi>/<psi_T|phi> (hand-coded kinds in the Q domain; AD / finite-difference kinds in
the graded domain: coefficient of eps^0 = oracle, coefficient of eps^1 = 0)."""
from . import common as cm
from . import wfcase, c02ad

META = {
    "level": "model_checking",
    "trusted": ["z3 5.1.0", "JAX tracing (A6)", "det/inv contract stubs (A2)", "front-end polynomial normal form (vf/poly.py, self-tested against z3)"],
    "assumptions": ["A1 reals for floats (incl. the deliberate complex64/float32 down-cast inside cisd/ucisd, which is the identity over the reals); "
                    "every model replayed on the real code in float64",
                    "A2 det/inv contract stubs", "A6 tracing = execution", "matrices the code inverts are invertible (|overlap| > 0)",
                    "UCISD/GCISD one-particle bases orthogonal (identity, permutation or a fixed rational Cayley instance)"],
    "bounds": {"quick": "norb<=4, <=2 electrons per spin, 1-2 symmetric Cholesky matrices, symmetric h1 (spin dependent where the property says so), "
                        "all walker/Hamiltonian/CI parameters symbolic",
               "thorough": "adds (4;2,1), (3;2,0), 2 Cholesky matrices at norb 4, 3 NOCI determinants"},
    "outside": "norb>4, float rounding, LAPACK, complex trial parameters, |overlap| -> 0",
}


def cases(tier):
    out = []
    # kind, norb, nelec, nchol, opt, spin_dep
    Q_ = [
        ("rhf", 3, (1, 1), 1, {}, 0), ("rhf", 3, (2, 2), 2, {}, 0), ("rhf", 4, (2, 2), 1, {"ident": 1}, 0),
        ("uhf", 3, (2, 1), 2, {}, 1), ("uhf", 3, (1, 0), 1, {}, 1), ("uhf", 4, (2, 2), 1, {"ident": 1}, 1),
        ("ghf", 2, (1, 1), 2, {}, 1), ("ghf", 3, (2, 1), 1, {"ident": 1}, 1),
        ("noci", 3, (2, 1), 1, {"ndets": 2}, 1), ("noci", 2, (1, 1), 2, {"ndets": 2}, 1),
        ("cisd", 3, (1, 1), 2, {}, 0), ("cisd", 4, (2, 2), 1, {}, 0),
        ("cisd_faster", 3, (1, 1), 2, {}, 0), ("cisd_faster", 4, (2, 2), 1, {}, 0),
        ("ucisd", 3, (2, 1), 1, {"moB_ident": 1}, 0), ("ucisd", 3, (1, 1), 2, {"moB_ident": 1}, 1),
        ("ucisd", 3, (1, 1), 1, {"moB_orth": 1}, 0),
    ]
    T_ = [
        ("rhf", 4, (2, 2), 2, {"ident": 1}, 0), ("uhf", 4, (2, 1), 2, {"ident": 1}, 1), ("uhf", 3, (2, 0), 2, {}, 1), ("ghf", 3, (1, 1), 2, {}, 1),
        ("noci", 3, (1, 1), 2, {"ndets": 3}, 1), ("cisd", 4, (2, 2), 2, {}, 0), ("cisd_faster", 4, (2, 2), 2, {}, 0),
        ("cisd", 4, (1, 1), 2, {}, 0), ("ucisd", 3, (2, 1), 1, {"moB_orth": 1}, 1), ("ucisd", 4, (2, 1), 1, {"moB_ident": 1}, 0),
        ("ucisd", 3, (2, 0), 1, {"moB_ident": 1}, 0), ("ucisd", 3, (2, 1), 2, {"moB_ident": 1}, 1),
    ]
    for kind, norb, nelec, nchol, opt, sd in Q_ + (T_ if tier == "thorough" else []):
        K = cm.KINDS[kind]
        base = {"check_id": "C02", "quantity": "energy", "kind": kind, "norb": norb, "nelec": list(nelec), "nchol": nchol, "opt": opt,
                "spin_dep": sd}
        if getattr(K, "unrestricted_ok", True):
            out.append(dict(base, entry="u"))
        if K.restricted_ok and nelec[0] >= nelec[1] and not (K.closed_shell and nelec[0] != nelec[1]):
            # restricted entry points see only the spin average of h1 (exact for them): spin-independent h1
            out.append(dict(base, entry="r", spin_dep=0 if kind in ("rhf", "cisd", "cisd_faster") else sd))
    out += wfcase.batch_cases("C02", "energy", tier)
    out += c02ad.cases(tier)
    return out


def run(args, seed, known):
    return c02ad.run(args, seed, known) if args.get("type") == "ad" else wfcase.run(args, seed, known)


def replay(data):
    return c02ad.replay(data) if data["case_args"].get("type") == "ad" else wfcase.replay(data)
