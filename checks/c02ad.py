"""C02, AD / finite-difference trials (wave_function_auto subclasses): the local energy is a function of the
finite-difference step eps.  Traced with eps as an input and interpreted in the graded domain (series in eps):
   [eps^0] E_code * <psi|phi> = <psi|H|phi>      (the limit is the mixed estimator)
   [eps^1] E_code * <psi|phi> = 0                (no linear term: quadratic convergence in the step)
"""
import numpy as np

from vf import engine, engine_g, fock, qdom, gdom
from vf.gdom import G
from vf.jx import arr, obj
from vf.qdom import Q
from . import common as cm
from . import mslater, wfcase


class AdEnergyCase(engine_g.GCase):
    check_id = "C02"
    order = 3
    nf = 0
    claim_orders = (0, 1)
    validate_s0 = __import__("fractions").Fraction(1, 512)
    validate_order = 1
    replay_steps = (__import__("fractions").Fraction(1, 8), __import__("fractions").Fraction(1, 16), __import__("fractions").Fraction(1, 32))  # the division by eps^2 leaves the series exact through eps^1 only

    def __init__(self, args):
        self.args = args
        self.norb, self.nelec, self.nchol = args["norb"], tuple(args["nelec"]), args["nchol"]
        self.entry = args.get("entry", "u")
        self.spin_dep = bool(args.get("spin_dep", False))
        self.opt = args.get("opt", {})
        self.ms = None
        if args["kind"] == "multislater":
            self.ms = mslater.MSBase()
            self.ms.setup_ms(args)
            self.trial = self.ms.trial
            kname = "multislater:" + self.ms.ms_tag()
        else:
            from ad_afqmc import wavefunctions
            self.kind = cm.KINDS[args["kind"]]
            self.trial = self.kind.make(wavefunctions, self.norb, self.nelec, self.opt)
            kname = self.kind.name
        self.eps_default = float(self.trial.eps)
        self.name = f"ad-energy:{kname}:{cm.shape_tag(self.norb, self.nelec, self.nchol)}:{self.entry}:" + \
                    ("h1ab:" if self.spin_dep else "") + ",".join(f"{k}={v}" for k, v in sorted(self.opt.items()))
        self.timeout_s = args.get("timeout", 300)

    def functions(self):
        c = type(self.trial).__name__
        r = "_restricted" if self.entry == "r" else ""
        return [f"ad_afqmc.wavefunctions.wave_function_auto._build_measurement_intermediates",
                f"ad_afqmc.wavefunctions.wave_function_auto._calc_energy{r}",
                f"ad_afqmc.wavefunctions.wave_function_auto._overlap_with_single_rot{r}",
                f"ad_afqmc.wavefunctions.wave_function_auto._overlap_with_double_rot{r}",
                f"ad_afqmc.wavefunctions.{c}._calc_overlap{r}"]

    def inputs(self, V):
        d = {"eps": arr((), lambda i: V.s(1)), "Wu": cm.walker(V, "wu", self.norb, self.nelec[0])}
        if self.entry == "u":
            d["Wd"] = cm.walker(V, "wd", self.norb, self.nelec[1])
        d.update(cm.ham_inputs(V, self.norb, self.nchol, self.spin_dep))
        if self.ms is not None:
            d.update(self.ms.ms_inputs(V))
        else:
            d.update(self.kind.params(V, self.norb, self.nelec, self.opt))
        return d

    def _params(self, kw):
        return {k: v for k, v in kw.items() if k not in ("Wu", "Wd", "h0", "h1", "chol", "eps")}

    def call(self, **kw):
        import jax
        p = self._params(kw)
        wd = self.ms.wave_data(kw) if self.ms is not None else self.kind.wave_data(p)
        hd = {"h0": kw["h0"], "h1": kw["h1"], "chol": kw["chol"], "ene0": 0.0}
        t = self.trial
        try:
            with jax.disable_jit():
                t.eps = kw["eps"]
                hd = t._build_measurement_intermediates(hd, wd)
                if self.entry == "u":
                    return t._calc_energy(kw["Wu"], kw["Wd"], hd, wd), t._calc_overlap(kw["Wu"], kw["Wd"], wd)
                return t._calc_energy_restricted(kw["Wu"], hd, wd), t._calc_overlap_restricted(kw["Wu"], wd)
        finally:
            t.eps = self.eps_default

    def _oracle(self, inp):
        norb = self.norb
        p = self._params(inp)
        Wu = inp["Wu"]
        Wd = inp["Wd"] if self.entry == "u" else Wu[:, : self.nelec[1]]
        one = cm.fone(Wu[0, 0])
        L = cm.chol3(inp, norb)
        if self.ms is not None:
            psi = self.ms.state(inp)
            phi = fock.slater(norb, Wu, Wd, one)
            T = None
        else:
            psi = self.kind.state(p, norb, self.nelec)
            phi = cm.walker_state(self.kind, p, norb, self.nelec, Wu, Wd)
            T = wfcase.basis_T(self.kind, p, norb, one)
            if T is not None and wfcase.is_identity(T):
                T = None
        ovo = fock.inner(psi, phi)
        if T is None:
            num = fock.inner(psi, fock.apply_H(norb, inp["h0"][()], inp["h1"], L, phi))
        else:
            zero = one * 0
            Lso = [wfcase.rot(T, wfcase.blockdiag(L[g], L[g], zero)) for g in range(self.nchol)]
            hso = wfcase.rot(T, wfcase.blockdiag(inp["h1"][0], inp["h1"][1], zero))
            num = fock.inner(psi, fock.apply_H_so(2 * norb, inp["h0"][()], hso, Lso, phi))
        return ovo, num

    def relations(self, inp, out):
        E, ov = out
        E, ov = E[()], ov[()]
        q = {k: (np.vectorize(lambda g: g.const() if isinstance(g, G) else g, otypes=[object])(v)) for k, v in inp.items() if k != "eps"}
        ovo, num = self._oracle(q)
        ovq = ov.const() if isinstance(ov, G) else ov
        ovq = qdom.recognize(ovq)
        return [("overlap", ovq, ovo), ("energy", E * ovq, G.lift(num))]

    def residual(self, inp, out, s, vals, rerun=None):
        E, ov = out
        q = {k: v for k, v in inp.items() if k != "eps"}
        ovo, num = self._oracle(q)
        return {"overlap": complex(ov) - complex(ovo), "energy": complex(E) * complex(ov) - complex(num)}


def run(args, seed, known):
    return engine_g.run_gcase(AdEnergyCase(args), seed=seed, known=known)


def replay(data):
    return engine_g.replay_file_g(AdEnergyCase(data["case_args"]), data)


def cases(tier):
    out = []
    Q_ = [("CISD", 3, (1, 1), 1, {}, 0, "r"), ("CISD", 4, (2, 2), 1, {}, 0, "r"), ("CISD_THC", 3, (1, 1), 1, {"nthc": 2}, 0, "r"),
          ("UCISD", 3, (1, 1), 1, {"moB_ident": 1}, 1, "u"), ("UCISD", 3, (2, 1), 1, {"moB_ident": 1}, 1, "u"),
          ("GCISD", 2, (1, 1), 1, {}, 1, "u")]
    T_ = [("CISD", 3, (1, 1), 2, {}, 0, "r"), ("CISD_THC", 4, (2, 2), 1, {"nthc": 2}, 0, "r"), ("UCISD", 3, (1, 1), 2, {"moB_orth": 1}, 1, "u"),
          ("GCISD", 3, (2, 1), 1, {}, 1, "u"), ("UCISD", 4, (2, 1), 1, {"moB_ident": 1}, 0, "u")]
    for kind, norb, nelec, nchol, opt, sd, entry in Q_ + (T_ if tier == "thorough" else []):
        out.append({"type": "ad", "kind": kind, "norb": norb, "nelec": list(nelec), "nchol": nchol, "opt": opt, "spin_dep": sd, "entry": entry})
    # multi-Slater: a few enumerated lists (aufbau and non-aufbau reference), both entries
    lists = mslater.det_lists(tier)
    pick = [l for l in lists if l[3] in ("full9-ref4", "nonaufbau4", "full9-311-ref4")] if tier == "quick" else lists
    for norb, nelec, lst, tag in pick:
        mr = max(1, mslater.max_rank(lst))
        base = {"type": "ad", "kind": "multislater", "norb": norb, "nelec": list(nelec), "nchol": 1, "dets": [list(map(list, d)) for d in lst],
                "max_excitation": mr, "tag": tag}
        out.append(dict(base, entry="u", spin_dep=1))
        if nelec[0] == nelec[1] and lst[0][0] == lst[0][1]:
            out.append(dict(base, entry="r", spin_dep=0))
    return out
