"""C11 - determinant-list trials mean what they say; an exact trial gives zero variance.

(a) meaning of the list: overlap (Q domain), force bias and local energy (graded domain in the finite-difference step) of
    multislater built by the REAL get_excitations / parity from enumerated determinant lists (every reference position, shuffled
    orders, cut-off = max rank and max rank + 1) equal <psi|.|phi> with |psi> = sum_i c_i |D_i> (alpha-string x beta-string).
(b) zero variance: (E_L - E) <psi|phi> = sum_J ((H c)_J - E c_J) phi_J for every c, E, walker, Hamiltonian (full determinant lists);
    hence H c = E c  =>  E_L = E for every walker (block energies are weighted means of E_L: C12).
(c) read_dets on symbolic bytes (PX): the parsed state is exactly the written one for every occupation character pattern.
(d) get_fci_state on a fake FCI object with symbolic coefficients (PX): determinants / coefficients preserved, ordered by |coeff|.
"""
import itertools
import json
import os
import time
import traceback
from fractions import Fraction

import numpy as np
import z3

from vf import engine, engine_g, fock, qdom, px
from vf.explore import Explorer, SB, Budget
from vf.gdom import G
from vf.px import SI, SR, zr
from vf.qdom import Q
from vf.jx import arr
from . import common as cm
from . import mslater, c02ad, wfcase

META = {
    "level": "model_checking",
    "trusted": ["z3 5.1.0", "JAX tracing (A6)", "det/inv stubs (A2)", "the real get_excitations/parity executed concretely per enumerated list with "
                "index-coded coefficients (slot and sign recovery)", "PX file / struct model for read_dets: int32 header fields concrete, each "
                "coefficient an opaque real determined by its 8 bytes, each occupation byte a symbolic integer 0..255"],
    "assumptions": ["A1 reals for floats", "A2 stubs", "determinant lists enumerated within the bound; coefficients, walkers, Hamiltonian symbolic",
                    "pyscf's FCI solver and large_ci are outside (a fake FCI object supplies symbolic coefficients)"],
    "bounds": {"quick": "lists over (3;2,1), (3;1,1), (4;2,2) with <= 9 determinants; zero-variance identity for the full (3;1,1) and (3;2,1) spaces; "
                        "read_dets: 2 determinants x 3 orbitals; get_fci_state: 3 determinants",
               "thorough": "every reference of the full (3;2,1) list, more (4;2,2) lists, read_dets 2 x 4"},
    "outside": "complete driver runs (C12 covers the block estimator), pyscf FCI, lists beyond the bound",
}


class ZeroVar(c02ad.AdEnergyCase):
    """(E_L - E) <psi|phi> = sum_J ((H c)_J - E c_J) phi_J  at eps^0, and no eps^1 term"""
    check_id = "C11"

    def __init__(self, args):
        super().__init__(args)
        self.check_id = "C11"
        self.name = "zero-variance:" + self.name

    def inputs(self, V):
        d = super().inputs(V)
        d["Eval"] = arr((), lambda i: V.r("Eval"))
        return d

    def _params(self, kw):
        return {k: v for k, v in kw.items() if k not in ("Wu", "Wd", "h0", "h1", "chol", "eps", "Eval")}

    def _residual_oracle(self, q):
        """sum_J ((H c)_J - E c_J) phi_J with H applied to the TRIAL vector (not to the walker)"""
        n = self.norb
        Wu = q["Wu"]
        Wd = q["Wd"] if self.entry == "u" else Wu[:, : self.nelec[1]]
        one = cm.fone(Wu[0, 0])
        psi = self.ms.state(q)
        phi = fock.slater(n, Wu, Wd, one)
        Hpsi = fock.apply_H(n, q["h0"][()], q["h1"], cm.chol3(q, n), psi)
        E = q["Eval"][()]
        res = fock.add_states(Hpsi, fock.scale(psi, -E if isinstance(E, Q) else -complex(E)))
        tot = None
        for J, a in res.items():
            if J in phi:
                t = a * phi[J]  # real symmetric H and real coefficients: no conjugation
                tot = t if tot is None else tot + t
        return tot if tot is not None else one * 0

    def relations(self, inp, out):
        E, ov = out
        E, ov = E[()], ov[()]
        q = {k: (np.vectorize(lambda g: g.const() if isinstance(g, G) else g, otypes=[object])(v)) for k, v in inp.items() if k != "eps"}
        ovq = qdom.recognize(ov.const() if isinstance(ov, G) else ov)
        Ev = q["Eval"][()]
        return [("zero_variance_residual", (E - Ev) * ovq, G.lift(self._residual_oracle(q)))]

    def residual(self, inp, out, s, vals, rerun=None):
        E, ov = out
        q = {k: v for k, v in inp.items() if k != "eps"}
        return {"zero_variance_residual": (complex(E) - complex(q["Eval"][()])) * complex(ov) - complex(self._residual_oracle(q))}


# ---- PX parts ---------------------------------------------------------------------------------------------------------
class SymByte:
    """one byte read from the file: symbolic integer 0..255 compared with bytes literals"""

    def __init__(self, name):
        self.v = z3.Int(name)

    def __eq__(self, other):
        if isinstance(other, (bytes, bytearray)) and len(other) == 1:
            return SB(self.v == other[0])
        return False

    def __hash__(self):
        return id(self)


class FakeFile:
    def __init__(self, items):
        self.items = list(items)

    def read(self, n):
        return self.items.pop(0)

    def __enter__(self):
        return self

    def __exit__(self, *a):
        return False


class FakeStruct:
    @staticmethod
    def unpack(fmt, token):
        return (token,)


class PXRunner:
    def __init__(self, name, args, known):
        self.args, self.known = args, known or {}
        self.res = {"case": name, "obligations": [], "violations": [], "inconclusive": [], "errors": [], "known": [], "samples": [],
                    "functions": [], "paths": 0}

    def check(self, label, asserts, concrete_bad):
        fam = label.split("/")[0]
        if sum(1 for v in self.res["violations"] if v["label"].split("/")[0] == fam) >= 2:
            return
        t0 = time.time()
        s = z3.Solver()
        s.set("timeout", 60000)
        s.add(*asserts)
        r = str(s.check())
        ob = {"label": label, "status": r, "seconds": round(time.time() - t0, 3), "how": "LIA/LRA"}
        if len(self.res["samples"]) < 2:
            txt = s.to_smt2()
            self.res["samples"].append({"label": label, "smt2_head": txt[:1000], "smt2_bytes": len(txt)})
        if r == "sat":
            bad, detail, wit = concrete_bad(s.model())
            if bad:
                from vf.engine import VERIF
                d = os.path.join(VERIF, "replays")
                os.makedirs(d, exist_ok=True)
                safe = "".join(ch if ch.isalnum() or ch in "-_." else "_" for ch in f"C11_{self.res['case']}__{label}")
                path = os.path.join(d, safe + ".json")
                json.dump({"check": "C11", "case_args": self.args, "label": label, "witness": wit, "detail": detail}, open(path, "w"), indent=1)
                key = f"{self.res['case']}:{fam}"
                v = {"label": label, "key": key, "replay": path, "detail": detail}
                if key in self.known:
                    self.res["known"].append(v)
                    ob["status"] = "known-finding"
                else:
                    self.res["violations"].append(v)
                    ob["status"] = "violated"
            else:
                ob["status"] = "spurious"
                self.res["errors"].append(f"{label}: model does not reproduce on the real code ({detail})")
        elif r != "unsat":
            self.res["inconclusive"].append(label)
        self.res["obligations"].append(ob)


def write_dets(path, norb, dets):
    """reference writer (the Dice format read_dets documents): int32 ndets, int32 norbs, then per determinant float64 + norbs chars"""
    import struct
    with open(path, "wb") as f:
        f.write(struct.pack("i", len(dets)))
        f.write(struct.pack("i", norb))
        for coeff, chars in dets:
            f.write(struct.pack("d", coeff))
            for c in chars:
                f.write(struct.pack("c", bytes([c])))


def run_read_dets(R, args):
    from ad_afqmc import pyscf_interface as pi
    nd, norb, ask = args["ndets"], args["norb"], args.get("ask")
    R.res["functions"] = ["ad_afqmc.pyscf_interface.read_dets"]
    bytes_ = [[SymByte(f"b{d}_{j}") for j in range(norb)] for d in range(nd)]
    coefs = [SR(f"coef{d}") for d in range(nd)]
    pre = [z3.And(b.v >= 0, b.v <= 255) for row in bytes_ for b in row]

    def body():
        items = [nd, norb]
        for d in range(nd):
            items.append(coefs[d])
            items.extend(bytes_[d])
        old_struct, old_open = pi.struct, getattr(pi, "open", None)
        pi.struct = FakeStruct
        pi.open = lambda *a, **k: FakeFile(items)
        try:
            return pi.read_dets("symbolic.bin", ask)
        finally:
            pi.struct = old_struct
            if old_open is None:
                del pi.open
            else:
                pi.open = old_open

    def concrete(model):
        import tempfile
        chars = [[model.eval(b.v, model_completion=True).as_long() for b in row] for row in bytes_]
        cf = [float(d + 1) + 0.5 for d in range(nd)]
        with tempfile.NamedTemporaryFile(suffix=".bin", delete=False) as tf:
            fname = tf.name
        try:
            write_dets(fname, norb, list(zip(cf, chars)))
            norbs_r, state, ndall = pi.read_dets(fname, ask)
        finally:
            os.unlink(fname)
        exp = {}
        for d in range(nd if ask is None else min(ask, nd)):
            da = tuple(1 if c in (ord("a"), ord("2")) else 0 for c in chars[d])
            db = tuple(1 if c in (ord("b"), ord("2")) else 0 for c in chars[d])
            exp[(da, db)] = cf[d]
        bad = norbs_r != norb or ndall != nd or state != exp
        return bad, f"file chars {[bytes(c) for c in chars]} read as {state}, written {exp}", {"chars": chars}

    ex = Explorer(pre=pre, max_paths=100000, variables=[b.v for row in bytes_ for b in row])
    k = 0
    for pc, (norbs_r, state, ndall) in ex.paths(body):
        k += 1
        nread = nd if ask is None else min(ask, nd)
        # expected determinant per record, as z3 terms over the bytes
        posts = [z3.BoolVal(norbs_r == norb and ndall == nd)]
        # the dict keeps the LAST record for a repeated determinant; rebuild the expected dict on this path from the parsed keys
        keys = list(state.keys())
        for d in range(nread):
            occ_a = [z3.Or(b.v == ord("a"), b.v == ord("2")) for b in bytes_[d]]
            occ_b = [z3.Or(b.v == ord("b"), b.v == ord("2")) for b in bytes_[d]]
            # record d must be represented by a key with exactly this occupation, and unless a later record has the same
            # occupation its value is coefficient d
            match = []
            for key in keys:
                same = z3.And(*[oa == bool(key[0][j]) for j, oa in enumerate(occ_a)] + [ob == bool(key[1][j]) for j, ob in enumerate(occ_b)])
                later_same = z3.Or(*[z3.And(*[z3.And(z3.Or(bytes_[e][j].v == ord("a"), bytes_[e][j].v == ord("2")) == oa,
                                                    z3.Or(bytes_[e][j].v == ord("b"), bytes_[e][j].v == ord("2")) == ob)
                                              for j, (oa, ob) in enumerate(zip(occ_a, occ_b))]) for e in range(d + 1, nread)]) if d + 1 < nread else z3.BoolVal(False)
                val_ok = z3.Or(later_same, zr(state[key]) == coefs[d].e) if isinstance(state[key], SR) else z3.BoolVal(False)
                match.append(z3.And(same, val_ok))
            posts.append(z3.Or(*match) if match else z3.BoolVal(False))
        posts.append(z3.BoolVal(len(keys) <= nread))
        R.check(f"roundtrip/path{k}", pre + pc + [z3.Not(z3.And(*posts))], concrete)
    R.res["paths"] = k
    if getattr(ex, "unproved_failures", 0):
        R.res["inconclusive"].append(f"{ex.unproved_failures} path(s) admitted after an unknown feasibility query ended in an exception of the code under test")


class FakeFCI:
    def __init__(self, norb, nelec, dets, coefs):
        self.norb, self.nelec, self.dets, self.coefs = norb, nelec, dets, coefs
        self.ci = np.zeros((len(dets),))

    def large_ci(self, ci, norb, nelec, tol=0.0, return_strs=False):
        return [(self.coefs[k], [p for p in range(norb) if d[0][p]], [p for p in range(norb) if d[1][p]]) for k, d in enumerate(self.dets)]


def run_fci_state(R, args):
    from ad_afqmc import pyscf_interface as pi
    R.res["functions"] = ["ad_afqmc.pyscf_interface.get_fci_state"]
    norb, nelec = 3, (2, 1)
    dets = mslater.all_dets(norb, nelec)[: args["ndets"]]
    cz = [z3.Real(f"c{k}") for k in range(len(dets))]
    pre = [z3.Distinct(*[z3.If(c >= 0, c, -c) for c in cz])] + [c != 0 for c in cz]
    ask = args.get("ask")

    def body():
        fci = FakeFCI(norb, nelec, dets, [SR(c) for c in cz])
        return pi.get_fci_state(fci, ndets=ask)

    def concrete(model):
        vals = []
        for c in cz:
            v = model.eval(c, model_completion=True)
            if z3.is_algebraic_value(v):
                v = v.approx(12)
            vals.append(float(Fraction(v.numerator_as_long(), v.denominator_as_long())))
        fci = FakeFCI(norb, nelec, dets, vals)
        st = pi.get_fci_state(fci, ndets=ask)
        order = sorted(range(len(dets)), key=lambda k: -abs(vals[k]))[: (ask or len(dets))]
        exp = [(dets[k], vals[k]) for k in order]
        got = list(st.items())
        return got != exp, f"state {got} vs expected {exp}", {"coeffs": vals}

    ex = Explorer(pre=pre, max_paths=5000, variables=cz)
    k = 0
    for pc, st in ex.paths(body):
        k += 1
        items = list(st.items())
        nkeep = len(dets) if ask is None else min(ask, len(dets))
        posts = [z3.BoolVal(len(items) == nkeep)]
        absz = [z3.If(c >= 0, c, -c) for c in cz]
        for pos, (det, val) in enumerate(items):
            if det not in dets:
                posts.append(z3.BoolVal(False))
                continue
            j = dets.index(det)
            posts.append(zr(val) == cz[j])
            # rank of |c_j| among all is `pos`: exactly pos coefficients are larger in magnitude
            posts.append(z3.Sum([z3.If(absz[m] > absz[j], 1, 0) for m in range(len(dets))]) == pos)
        R.check(f"ordered_state/path{k}", pre + pc + [z3.Not(z3.And(*posts))], concrete)
    R.res["paths"] = k
    if getattr(ex, "unproved_failures", 0):
        R.res["inconclusive"].append(f"{ex.unproved_failures} path(s) admitted after an unknown feasibility query ended in an exception of the code under test")


def cases(tier):
    out = mslater.overlap_cases(tier, check_id="C11")
    # force bias / energy of enumerated lists through the graded domain (shared harness with C02)
    for c in c02ad.cases(tier):
        if c["kind"] == "multislater":
            out.append(dict(c, type="ad_ms"))
    # zero-variance identity on full determinant spaces
    for norb, nelec in (((3, (1, 1)), (3, (2, 1))) if tier == "quick" else ((3, (1, 1)), (3, (2, 1)), (4, (1, 1)))):
        lst = mslater.all_dets(norb, nelec)
        lst = lst[2:] + lst[:2]  # non-aufbau reference
        out.append({"type": "zerovar", "kind": "multislater", "norb": norb, "nelec": list(nelec), "nchol": 1, "dets": [list(map(list, d)) for d in lst],
                    "max_excitation": max(1, mslater.max_rank(lst)), "tag": "full", "entry": "u", "spin_dep": 1})
    out.append({"type": "read_dets", "ndets": 2, "norb": 3})
    out.append({"type": "read_dets", "ndets": 2, "norb": 2, "ask": 1})
    out.append({"type": "fci_state", "ndets": 3})
    out.append({"type": "fci_state", "ndets": 3, "ask": 2})
    if tier == "thorough":
        out.append({"type": "read_dets", "ndets": 2, "norb": 4})
        out.append({"type": "fci_state", "ndets": 4})
    return out


def run(args, seed, known):
    t = args["type"]
    if t == "ms":
        return engine.run_case(mslater.MSOverlapCase(args), seed=seed, known=known)
    if t == "ad_ms":
        c = c02ad.AdEnergyCase(args)
        c.check_id = "C11"
        return engine_g.run_gcase(c, seed=seed, known=known)
    if t == "zerovar":
        return engine_g.run_gcase(ZeroVar(args), seed=seed, known=known)
    name = ":".join(f"{k}={v}" for k, v in args.items())
    R = PXRunner(name, args, known)
    t0 = time.time()
    try:
        (run_read_dets if t == "read_dets" else run_fci_state)(R, args)
    except Budget as ex:
        R.res["inconclusive"].append(f"path budget: {ex}")
    except Exception as ex:
        R.res["errors"].append(f"{type(ex).__name__}: {ex}\n{traceback.format_exc()[-1500:]}")
    R.res["wall_s"] = round(time.time() - t0, 3)
    return R.res


def replay(data):
    a = data["case_args"]
    if a["type"] == "ms":
        return engine.replay_file(mslater.MSOverlapCase(a), data)
    if a["type"] == "ad_ms":
        return engine_g.replay_file_g(c02ad.AdEnergyCase(a), data)
    if a["type"] == "zerovar":
        return engine_g.replay_file_g(ZeroVar(a), data)
    return {"violates": True, "summary": data.get("detail", ""), "witness": data.get("witness")}
