"""C07 - stochastic reconfiguration is an unbiased, weight-conserving comb.

jitted variants: the traced jaxpr (cumsum, abs, searchsorted's binary search, gather) is interpreted over symbolic weights and
offset; every data-dependent integer (the comb indices) forces a z3-decided path split, so each feasible path has concrete
output tags.  NumPy / MPI variants: the real functions run on object arrays of symbolic reals (PX); MPI ranks are threads
around an in-process communicator that implements rank-ordered Gather / Scatter.
On every path: outputs are copies of inputs, new weights all equal sum|w|/N, counts lie in {floor, ceil}(N|w_i|/W), zero-weight
walkers are never selected, up/down blocks are copied together, and each comb index satisfies the functional specification
cum_{i-1} < W (k + zeta)/N <= cum_i.  That specification determines the index uniquely, so all implementations agree, and with
the interval lemma sum_k |(A-k, B-k] n (0,1)| = B - A it gives the expectation over the offset exactly: N|w_i|/W.
"""
import itertools
import json
import os
import threading
import time
import traceback
from fractions import Fraction

import numpy as np
import z3

from vf import px, qdom
from vf.explore import Explorer, Budget
from vf.px import SR, zr

META = {
    "level": "model_checking",
    "trusted": ["z3 5.1.0 (linear / nonlinear real arithmetic: the only product is W*zeta)", "JAX tracing (A6) for the jitted variants",
                "PX for the NumPy / MPI variants; in-process communicator model: Gather concatenates in rank order, Scatter splits in rank order, "
                "Barrier synchronises (mpi4py's documented semantics); config.not_a_comm is the real single-process stub"],
    "assumptions": ["A1 exact reals for float64 (an offset that lands on a breakpoint within rounding is outside the claim)",
                    "0 < zeta < 1 (the statement excludes the end points)", "sum |w| > 0",
                    "rank arrival orders are enumerated (thread start permutations), the data dimension is solver-quantified"],
    "bounds": {"quick": "N = 2, 3 walkers for every variant (restricted + unrestricted containers); MPI with R = 1 (not_a_comm), R = 2 and 3 ranks x 1 walker, "
                        "every arrival order", "thorough": "N = 4 for the jitted and propagator-level entry points"},
    "outside": "N > 4, real MPI runtime, floating-point ties at breakpoints, zeta = 0",
}


class FakeComm:
    """R ranks in one process: rank-ordered Gather / Scatter with barriers (model of mpi4py semantics).  The rank threads are scheduled
    cooperatively: exactly one of them runs at any time (`run` lock), and it hands over only while it waits in a collective call - z3
    terms are created by the ranks and z3 contexts are not thread-safe."""

    class Shared:
        def __init__(self, size):
            self.size = size
            self.barrier = threading.Barrier(size)
            self.slots = {}
            self.lock = threading.Lock()
            self.run = threading.Lock()
            self.coop = False  # cooperative scheduling (symbolic runs): the rank threads take turns under `run`

    def __init__(self, shared, rank):
        self.sh, self.rank = shared, rank

    def Get_size(self):
        return self.sh.size

    def Get_rank(self):
        return self.rank

    def _wait(self):
        if not self.sh.coop:
            self.sh.barrier.wait()  # concrete replays on the real code: plain threads, no z3 objects involved
            return
        self.sh.run.release()
        try:
            self.sh.barrier.wait()
        finally:
            self.sh.run.acquire()

    def Barrier(self):
        self._wait()

    def Gather(self, sendbuf, recvbuf, root=0):
        with self.sh.lock:
            self.sh.slots[("g", self.rank)] = np.array(sendbuf, dtype=object, copy=True)
        self._wait()
        if self.rank == root:
            parts = [self.sh.slots[("g", r)] for r in range(self.sh.size)]
            recvbuf[...] = np.concatenate([p.reshape((-1,) + p.shape[1:]) if p.ndim else p.reshape(1) for p in parts], axis=0).reshape(recvbuf.shape)
        self._wait()

    def Scatter(self, sendbuf, recvbuf, root=0):
        if self.rank == root:
            n = sendbuf.shape[0] // self.sh.size
            with self.sh.lock:
                for r in range(self.sh.size):
                    self.sh.slots[("s", r)] = np.array(sendbuf[r * n:(r + 1) * n], dtype=object, copy=True)
        self._wait()
        recvbuf[...] = self.sh.slots[("s", self.rank)].reshape(recvbuf.shape)
        self._wait()


class Runner:
    def __init__(self, name, args, known):
        self.args = args
        self.known = known or {}
        self.res = {"case": name, "obligations": [], "violations": [], "inconclusive": [], "errors": [], "known": [], "samples": [],
                    "functions": [], "paths": 0}

    def check(self, label, asserts, variables, concrete):
        fam = label.split("/")[0]
        if sum(1 for v in self.res["violations"] if v["label"].split("/")[0] == fam) >= 2:
            self.res["obligations"].append({"label": label, "status": "skipped (already violated)", "seconds": 0.0, "how": "skipped"})
            return
        t0 = time.time()
        s = z3.Solver()
        s.set("timeout", 60000)
        s.add(*asserts)
        r = str(s.check())
        ob = {"label": label, "status": r, "seconds": round(time.time() - t0, 3), "how": "NRA"}
        if len(self.res["samples"]) < 2:
            txt = s.to_smt2()
            self.res["samples"].append({"label": label, "smt2_head": txt[:1200], "smt2_bytes": len(txt)})
        if r == "sat":
            m = s.model()
            w = {}
            for v in variables:
                val = m.eval(v, model_completion=True)
                if z3.is_algebraic_value(val):
                    val = val.approx(20)
                w[str(v)] = [val.numerator_as_long(), val.denominator_as_long()]
            bad, detail = concrete(w)
            if bad:
                key = f"{self.res['case']}:{fam}"
                path = self._write(label, w, detail)
                v = {"label": label, "key": key, "replay": path, "detail": detail}
                if key in self.known:
                    self.res["known"].append(v)
                    ob["status"] = "known-finding"
                else:
                    self.res["violations"].append(v)
                    ob["status"] = "violated"
            else:
                ob["status"] = "spurious"
                self.res["errors"].append(f"{label}: model does not reproduce on the real code ({detail})")
        elif r != "unsat":
            self.res["inconclusive"].append(label)
        self.res["obligations"].append(ob)

    def _write(self, label, w, detail):
        from vf.engine import VERIF
        d = os.path.join(VERIF, "replays")
        os.makedirs(d, exist_ok=True)
        safe = "".join(ch if ch.isalnum() or ch in "-_." else "_" for ch in f"C07_{self.res['case']}__{label}")
        path = os.path.join(d, safe + ".json")
        json.dump({"check": "C07", "case_args": self.args, "label": label, "witness": w, "detail": detail}, open(path, "w"), indent=1)
        return path


# ---- the implementations under test, each returning (tags_up, tags_dn, new_weights) --------------------------------------
def tags_arrays(N, uhf):
    up = np.arange(N, dtype=float).reshape(N, 1, 1)
    dn = (100.0 + np.arange(N, dtype=float)).reshape(N, 1, 1)
    return up, dn


def impl_concrete(variant, N, R, order, wv, zv):
    """run the real implementation on concrete numbers; returns (tags_up, tags_dn, weights)"""
    import jax.numpy as jnp
    from ad_afqmc import sr, config
    up, dn = tags_arrays(N, True)
    w = np.array(wv, dtype=float)
    if variant == "jit":
        a, b = sr.stochastic_reconfiguration(jnp.array(up), jnp.array(w), zv)
        return [int(round(float(x))) for x in np.asarray(a)[:, 0, 0]], None, [float(x) for x in np.asarray(b)]
    if variant == "jit_uhf":
        a, b = sr.stochastic_reconfiguration_uhf([jnp.array(up), jnp.array(dn)], jnp.array(w), zv)
        return ([int(round(float(x))) for x in np.asarray(a[0])[:, 0, 0]], [int(round(float(x))) - 100 for x in np.asarray(a[1])[:, 0, 0]],
                [float(x) for x in np.asarray(b)])
    if variant == "np":
        a, b = sr.stochastic_reconfiguration_np(up, w, zv)
        return [int(round(float(x))) for x in np.asarray(a)[:, 0, 0]], None, [float(x) for x in np.asarray(b)]
    if variant in ("mpi", "mpi_uhf"):
        n = N // R
        outs = [None] * R
        sh = FakeComm.Shared(R)

        def work(r):
            comm = config.not_a_comm() if R == 1 else FakeComm(sh, r)
            if variant == "mpi":
                outs[r] = sr.stochastic_reconfiguration_mpi(up[r * n:(r + 1) * n], w[r * n:(r + 1) * n], zv, comm)
            else:
                outs[r] = sr.stochastic_reconfiguration_mpi_uhf([up[r * n:(r + 1) * n].copy(), dn[r * n:(r + 1) * n].copy()], w[r * n:(r + 1) * n], zv, comm)
        ths = [threading.Thread(target=work, args=(r,)) for r in order]
        for t in ths:
            t.start()
        for t in ths:
            t.join()
        tu, td, ww = [], [], []
        for r in range(R):
            a, b = outs[r]
            if variant == "mpi":
                tu += [int(round(float(x))) for x in np.asarray(a)[:, 0, 0]]
            else:
                tu += [int(round(float(x))) for x in np.asarray(a[0])[:, 0, 0]]
                td += [int(round(float(x))) - 100 for x in np.asarray(a[1])[:, 0, 0]]
            ww += [float(x) for x in np.asarray(b)]
        return tu, (td if variant == "mpi_uhf" else None), ww
    if variant in ("local_r", "local_u"):
        import jax
        from ad_afqmc import propagation
        cls = propagation.propagator_restricted if variant == "local_r" else propagation.propagator_unrestricted
        prop = cls(n_walkers=N)
        key = jax.random.PRNGKey(int(zv))  # for the local variants `zv` is the PRNG seed
        pd = {"key": key, "weights": jnp.array(w), "walkers": jnp.array(up) if variant == "local_r" else [jnp.array(up), jnp.array(dn)]}
        zeta = float(jax.random.uniform(jax.random.split(key)[1]))
        pd = prop.stochastic_reconfiguration_local(pd)
        if variant == "local_r":
            return [int(round(float(x))) for x in np.asarray(pd["walkers"])[:, 0, 0]], None, [float(x) for x in np.asarray(pd["weights"])], zeta
        return ([int(round(float(x))) for x in np.asarray(pd["walkers"][0])[:, 0, 0]],
                [int(round(float(x))) - 100 for x in np.asarray(pd["walkers"][1])[:, 0, 0]], [float(x) for x in np.asarray(pd["weights"])], zeta)
    raise ValueError(variant)


def spec_concrete(N, wv, zv):
    """independent exact definition in Fractions: first i with cum_i >= W (k + zeta)/N"""
    w = [abs(Fraction(x)) for x in wv]
    cum = list(itertools.accumulate(w))
    W = cum[-1]
    z = Fraction(zv)
    idx = []
    for k in range(N):
        t = W * (k + z) / N
        idx.append(next(i for i in range(N) if cum[i] >= t))
    return idx, float(W / N)


def run(args, seed, known):
    variant, N, R = args["variant"], args["N"], args.get("R", 1)
    order = args.get("order", list(range(R)))
    name = f"{variant}:N={N}:R={R}:order={''.join(map(str, order))}"
    Rn = Runner(name, args, known)
    t0 = time.time()
    try:
        _run(Rn, variant, N, R, order)
    except Budget as ex:
        Rn.res["inconclusive"].append(f"path budget: {ex}")
    except Exception as ex:
        Rn.res["errors"].append(f"{type(ex).__name__}: {ex}\n{traceback.format_exc()[-1500:]}")
    Rn.res["wall_s"] = round(time.time() - t0, 3)
    return Rn.res


def _run(Rn, variant, N, R, order):
    from ad_afqmc import sr, config
    fnname = {"jit": "stochastic_reconfiguration", "jit_uhf": "stochastic_reconfiguration_uhf", "np": "stochastic_reconfiguration_np",
              "mpi": "stochastic_reconfiguration_mpi", "mpi_uhf": "stochastic_reconfiguration_mpi_uhf",
              "local_r": "stochastic_reconfiguration", "local_u": "stochastic_reconfiguration_uhf"}[variant]
    Rn.res["functions"] = [f"ad_afqmc.sr.{fnname}"] + (["ad_afqmc.config.not_a_comm"] if variant.startswith("mpi") and R == 1 else [])
    if variant.startswith("local"):
        Rn.res["functions"].append("ad_afqmc.propagation.propagator_%s.stochastic_reconfiguration_local" % ("restricted" if variant == "local_r" else "unrestricted"))
    wz = [z3.Real(f"w{i}") for i in range(N)]
    # for the propagator-level variants the offset is the (opaque) uniform random number drawn from prop_data["key"]
    zeta = z3.Real("@uniform#0.re") if variant.startswith("local") else z3.Real("zeta")
    absw = [z3.If(x >= 0, x, -x) for x in wz]
    W = z3.Sum(absw)
    cum = [z3.Sum(absw[: i + 1]) for i in range(N)]
    pre = [zeta > 0, zeta < 1, W > 0]
    variables = wz + [zeta]
    uhf = variant in ("jit_uhf", "mpi_uhf", "local_u")

    if variant in ("jit", "jit_uhf", "local_r", "local_u"):
        import jax
        import jax.numpy as jnp
        from vf import jx
        from vf.poly import P
        from vf.qdom import Q
        up, dn = tags_arrays(N, True)
        if variant == "jit":
            closed = jax.make_jaxpr(lambda a, w, z: sr.stochastic_reconfiguration(a, w, z))(jnp.array(up), jnp.ones(N), 0.3)
        elif variant == "jit_uhf":
            closed = jax.make_jaxpr(lambda a, b, w, z: sr.stochastic_reconfiguration_uhf([a, b], w, z))(jnp.array(up), jnp.array(dn), jnp.ones(N), 0.3)
        else:
            from ad_afqmc import propagation
            from vf import stubs
            cls = propagation.propagator_restricted if variant == "local_r" else propagation.propagator_unrestricted
            prop = cls(n_walkers=N)

            def f_local(a, b, w, key):
                pd = {"key": key, "weights": w, "walkers": a if variant == "local_r" else [a, b]}
                pd = prop.stochastic_reconfiguration_local(pd)
                return (pd["walkers"], pd["weights"]) if variant == "local_r" else (pd["walkers"][0], pd["walkers"][1], pd["weights"])
            with stubs.installed(det=False, inv=False, expm=False, random=True):
                closed = jax.make_jaxpr(f_local)(jnp.array(up), jnp.array(dn), jnp.ones(N), jax.random.PRNGKey(0))
        Rn.res["traced"] = {"equations": jx.n_eqns(closed.jaxpr)}

        def body():
            qdom.reset()
            it = jx.Interp()
            wq = np.array([Q(P.var(f"w{i}")) for i in range(N)], dtype=object)
            if variant.startswith("local"):
                ins = [it.lit(up), it.lit(dn), wq, it.lit(np.array([0, 1], dtype=np.uint32))]
            else:
                zq = np.array(Q(P.var("zeta")), dtype=object).reshape(())
                ins = [it.lit(up)] + ([it.lit(dn)] if uhf else []) + [wq, zq]
            outs = it.run(closed, ins)
            if uhf:
                a, b, ww = outs
                tu = [int(x.c[0]) for x in a[:, 0, 0]]
                td = [int(x.c[0]) - 100 for x in b[:, 0, 0]]
            else:
                a, ww = outs
                tu, td = [int(x.c[0]) for x in a[:, 0, 0]], None
            return tu, td, [qdom.tz(qdom._real_value(x, "weight")) for x in ww]
    else:
        def body():
            px.reset()
            up, dn = tags_arrays(N, True)
            w = np.array([SR(x) for x in wz], dtype=object)
            zs = SR(zeta)
            old = sr.jnp
            sr.jnp = px.ContainerNP()
            try:
                if variant == "np":
                    a, ww = sr.stochastic_reconfiguration_np(up, w, zs)
                    return [int(x) for x in a[:, 0, 0]], None, [zr(x) for x in ww]
                n = N // R
                outs = [None] * R
                errs = []
                sh = FakeComm.Shared(R)
                sh.coop = True

                def work(r):
                    if R > 1:
                        sh.run.acquire()
                    try:
                        comm = config.not_a_comm() if R == 1 else FakeComm(sh, r)
                        if variant == "mpi":
                            outs[r] = sr.stochastic_reconfiguration_mpi(up[r * n:(r + 1) * n].astype(object), w[r * n:(r + 1) * n], zs, comm)
                        else:
                            outs[r] = sr.stochastic_reconfiguration_mpi_uhf([up[r * n:(r + 1) * n].astype(object), dn[r * n:(r + 1) * n].astype(object)],
                                                                            w[r * n:(r + 1) * n], zs, comm)
                    except BaseException as ex:  # propagate to the exploring thread
                        errs.append(ex)
                        try:
                            sh.barrier.abort()
                        except Exception:
                            pass
                    finally:
                        if R > 1:
                            try:
                                sh.run.release()
                            except RuntimeError:
                                pass
                if R == 1:
                    work(0)
                else:
                    ths = [threading.Thread(target=work, args=(r,)) for r in order]
                    for t in ths:
                        t.start()
                    for t in ths:
                        t.join()
                if errs:
                    raise errs[0]
                tu, td, ww = [], [], []
                for r in range(R):
                    a, b = outs[r]
                    if variant == "mpi":
                        tu += [int(x) for x in np.asarray(a, dtype=object)[:, 0, 0]]
                    else:
                        tu += [int(x) for x in np.asarray(a[0], dtype=object)[:, 0, 0]]
                        td += [int(x) - 100 for x in np.asarray(a[1], dtype=object)[:, 0, 0]]
                    ww += [zr(x) for x in np.asarray(b, dtype=object)]
                return tu, (td if variant == "mpi_uhf" else None), ww
            finally:
                sr.jnp = old

    def concrete_local(wit):
        wv = [Fraction(*wit[f"w{i}"]) for i in range(N)]
        for seed_ in range(40):  # the offset is drawn by the real PRNG: try seeds, compare with the exact comb at the drawn offset
            tu, td, ww, zeta_real = impl_concrete(variant, N, R, order, [float(x) for x in wv], seed_)
            idx, avg = spec_concrete(N, wv, Fraction(zeta_real))
            if tu != idx or (td is not None and td != idx) or any(abs(x - avg) > 1e-9 * (1 + avg) for x in ww):
                return True, (f"real code (PRNG seed {seed_}, offset {zeta_real}): up tags {tu} dn tags {td} weights {ww}; exact comb {idx} "
                              f"weight {avg} (w={list(map(float, wv))})")
        return False, "no PRNG seed in 0..39 reproduces the mismatch"

    def concrete(wit):
        if variant.startswith("local"):
            return concrete_local(wit)
        wv = [Fraction(*wit[f"w{i}"]) for i in range(N)]
        zv = Fraction(*wit["zeta"])
        tu, td, ww = impl_concrete(variant, N, R, order, [float(x) for x in wv], float(zv))
        idx, avg = spec_concrete(N, wv, zv)
        bad = tu != idx or (td is not None and td != idx) or any(abs(x - avg) > 1e-9 * (1 + avg) for x in ww)
        return bad, f"real code: up tags {tu} dn tags {td} weights {ww}; exact comb {idx} weight {avg} (w={list(map(float, wv))}, zeta={float(zv)})"

    ex = Explorer(pre=pre, max_paths=5000, variables=variables)
    k = 0
    pcs = []
    for pc, (tu, td, ww) in ex.paths(body):
        k += 1
        pcs.append(z3.And(*pc) if pc else z3.BoolVal(True))
        base = pre + pc
        posts = {}
        posts["copies_only"] = z3.BoolVal(all(0 <= t < N for t in tu) and (td is None or all(0 <= t < N for t in td)))
        posts["spin_blocks_together"] = z3.BoolVal(td is None or td == tu)
        posts["equal_weights"] = z3.And(*[x * N == W for x in ww])
        posts["weight_conserved"] = z3.Sum(ww) == W
        cnt = [tu.count(i) for i in range(N)]
        posts["floor_or_ceil"] = z3.And(*[z3.And(cnt[i] * W > N * absw[i] - W, cnt[i] * W < N * absw[i] + W) for i in range(N)])
        posts["zero_weight_never_selected"] = z3.And(*[z3.Implies(absw[i] == 0, z3.BoolVal(cnt[i] == 0)) for i in range(N)])
        spec = []
        for kk, i in enumerate(tu):
            zk = W * (kk + zeta)
            lo = cum[i - 1] * N if i > 0 else z3.RealVal(0)
            spec.append(z3.And(lo < zk, zk <= cum[i] * N) if i > 0 else (zk <= cum[i] * N))
        posts["functional_spec"] = z3.And(*spec)
        for lab, post in posts.items():
            Rn.check(f"{lab}/path{k}", base + [z3.Not(post)], variables, concrete)
    Rn.res["paths"] = k
    if getattr(ex, "unproved_failures", 0):
        Rn.res["inconclusive"].append(f"{ex.unproved_failures} path(s) admitted after an unknown feasibility query ended in an exception of the code under test")
    cover = z3.Solver()
    cover.set("timeout", 60000)
    cover.add(*pre)
    cover.add(z3.Not(z3.Or(*pcs)))
    r = str(cover.check())
    Rn.res["obligations"].append({"label": "paths_cover_precondition", "status": r, "seconds": 0.0, "how": "NRA"})
    if r != "unsat":
        Rn.res["inconclusive"].append("paths_cover_precondition")
    # interval lemma (pure arithmetic, once per N): sum_k |(A,B] n (k,k+1)| = B - A for 0 <= A <= B <= N
    A, B = z3.Real("A"), z3.Real("B")
    tot = z3.Sum([z3.If(z3.If(B < kk + 1, B, kk + 1) - z3.If(A > kk, A, kk) > 0, z3.If(B < kk + 1, B, kk + 1) - z3.If(A > kk, A, kk), 0) for kk in range(N)])
    s = z3.Solver()
    s.add(A >= 0, A <= B, B <= N, tot != B - A)
    r = str(s.check())
    Rn.res["obligations"].append({"label": "interval_lemma(expectation over the offset = N|w_i|/W)", "status": r, "seconds": 0.0, "how": "LRA"})
    if r != "unsat":
        Rn.res["errors"].append("interval lemma not discharged")


def cases(tier):
    out = []
    Ns = (2, 3) if tier == "quick" else (2, 3, 4)
    for N in Ns:
        # N = 4 only for the jitted variants: for the NumPy / MPI routines the branch-feasibility queries (products zeta * total weight
        # with four absolute values) come back `unknown` within the 20 s budget (measured), so those cases could only be inconclusive
        for v in ("jit", "jit_uhf", "np", "local_r", "local_u") if N < 4 else ("jit", "jit_uhf", "local_r", "local_u"):
            out.append({"variant": v, "N": N})
        if N < 4:
            for v in ("mpi", "mpi_uhf"):
                out.append({"variant": v, "N": N, "R": 1, "order": [0]})
    for v in ("mpi", "mpi_uhf"):
        for R in (2, 3):
            for order in itertools.permutations(range(R)):
                out.append({"variant": v, "N": R, "R": R, "order": list(order)})
    return out


def replay(data):
    a = data["case_args"]
    wit = data["witness"]
    N, R = a["N"], a.get("R", 1)
    wv = [Fraction(*wit[f"w{i}"]) for i in range(N)]
    if a["variant"].startswith("local"):
        for seed_ in range(40):
            tu, td, ww, zr_ = impl_concrete(a["variant"], N, R, [0], [float(x) for x in wv], seed_)
            idx, avg = spec_concrete(N, wv, Fraction(zr_))
            if tu != idx or (td is not None and td != idx) or any(abs(x - avg) > 1e-9 * (1 + avg) for x in ww):
                return {"violates": True, "seed": seed_, "real": [tu, td, ww], "exact": [idx, avg]}
        return {"violates": False}
    zv = Fraction(*wit["zeta"])
    tu, td, ww = impl_concrete(a["variant"], N, R, a.get("order", list(range(R))), [float(x) for x in wv], float(zv))
    idx, avg = spec_concrete(N, wv, zv)
    bad = tu != idx or (td is not None and td != idx) or any(abs(x - avg) > 1e-9 * (1 + avg) for x in ww)
    return {"violates": bool(bad), "real": [tu, td, ww], "exact": [idx, avg]}
