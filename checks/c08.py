"""C08 - cached overlaps are coherent with the walkers whenever a propagation step reads them.

Every sampler entry point is traced as driver.afqmc calls it, for block structures up to 2 x 2 x 2, with the guarded hook
accumulating  sum_w |cached_w - calc_overlap(walkers)_w|^2  at every entry of propagate().  The interpretation keeps what matters
for coherence exact and abstracts the rest with congruence (A3):
  * trial.calc_overlap is interpreted for real (so a cached value is coherent iff it is the SAME normal form as the recomputation);
  * propagate(), the QR routines, stochastic_reconfiguration_local, the single-walker energy routines and optimize() are
    uninterpreted named calls (fresh outputs determined by their inputs) - except the hook output of propagate(), which is
    evaluated for real (a demand-driven slice of the callee);
  * PRNG numbers are opaque.
Obligation: the accumulator is identically 0 for ARBITRARY incoming prop_data['overlaps'] (so nothing the driver does between
sampler calls can matter), arbitrary walkers, weights, key.  Coherent code gives a syntactically zero term; a missing or misplaced
refresh leaves overlap(old walkers) - overlap(new walkers) over independent atoms.
"""
import numpy as np

from vf import engine, qdom
from vf.jx import arr, obj
from vf.qdom import Q
from . import common as cm

META = {
    "level": "model_checking",
    "trusted": ["z3 5.1.0", "JAX tracing (A6)", "uninterpreted named calls with congruence (A3): propagate, qr_vmap(_uhf), stochastic_reconfiguration_local, "
                "_calc_energy(_restricted), optimize; det stubs", "hook ANKIT76_AD_AFQMC_VERIF=1 (observation only)"],
    "assumptions": ["the driver's own sequence between sampler calls (QR, global SR, e_estimate update) is covered by quantifying over arbitrary incoming "
                    "overlaps rather than executed", "A1 reals for floats"],
    "bounds": {"quick": "2 walkers, (2;1,1;1), n_prop_steps x n_ene_blocks x n_sr_blocks = 2 x 2 x 2 (and 1 x 1 x 1), plain sampler and the four AD entry points, "
                        "restricted (rhf) and unrestricted (uhf) walkers", "thorough": "3 walkers, (3;2,1)"},
    "outside": "propagate_free (it never reads a cached overlap), the CPMC propagators, real driver/MPI runs",
}

ENTRIES = ("propagate_phaseless", "propagate_phaseless_ad", "propagate_phaseless_ad_nosr", "propagate_phaseless_ad_norot",
           "propagate_phaseless_ad_nosr_norot")


class Coherence(engine.Case):
    check_id = "C08"
    stubs = dict(det=True, inv=True, expm=True, qr=False, eigh=False, random=True)
    n_validate = 0
    holo = False
    # the compared accumulator is a sum of |cached - recomputed|^2 over symbolic overlaps; that its normal form is the literal 0 is the
    # result of the check, not a sign of a trivial obligation
    all_nontrivial = True

    def __init__(self, args):
        self.args = args
        self.entry, self.restricted = args["entry"], bool(args["restricted"])
        self.blocks = tuple(args["blocks"])  # (n_prop_steps, n_ene_blocks, n_sr_blocks)
        self.norb, self.nelec, self.nw = args.get("norb", 2), tuple(args.get("nelec", (1, 1))), args.get("n_walkers", 2)
        self.name = f"coherence:{self.entry}:{'restricted' if self.restricted else 'unrestricted'}:blocks={'x'.join(map(str, self.blocks))}:nw={self.nw}"
        self.timeout_s = 300
        import jax
        import jax.numpy as jnp
        from ad_afqmc import wavefunctions, propagation, sampling, hamiltonian
        n = self.norb
        self.ham = hamiltonian.hamiltonian(n)
        if self.restricted:
            self.trial = wavefunctions.rhf(n, self.nelec, n_opt_iter=1)
            self.prop = propagation.propagator_restricted(dt=0.01, n_walkers=self.nw, n_exp_terms=2)
        else:
            self.trial = wavefunctions.uhf(n, self.nelec, n_opt_iter=1)
            self.prop = propagation.propagator_unrestricted(dt=0.01, n_walkers=self.nw, n_exp_terms=2)
        self.sampler = sampling.sampler(n_prop_steps=self.blocks[0], n_ene_blocks=self.blocks[1], n_sr_blocks=self.blocks[2], n_blocks=1)
        self.key = jax.random.PRNGKey(0)
        rng = np.random.default_rng(2)
        h1 = np.round(rng.normal(size=(n, n)), 2)
        L = np.round(rng.normal(size=(1, n, n)), 2)
        self.hd0 = {"h0": 0.1, "h1": jnp.array([h1 + h1.T, h1 + h1.T]), "chol": jnp.array((L + L.transpose(0, 2, 1)).reshape(1, -1)), "ene0": 0.0}

    def functions(self):
        return [f"ad_afqmc.sampling.sampler.{self.entry}", "ad_afqmc.sampling.sampler._block_scan", "ad_afqmc.sampling.sampler._sr_block_scan",
                "ad_afqmc.sampling.sampler._ad_block", "ad_afqmc.propagation.propagator.propagate (hook at entry)"]

    def inputs(self, V):
        n, nw = self.norb, self.nw
        d = {"Wu": arr((nw, n, self.nelec[0]), lambda i: V.c(f"wu{i[0]}_{i[1]}{i[2]}")),
             "stale": arr((nw,), lambda i: V.c(f"stale{i[0]}")), "weights": arr((nw,), lambda i: V.r(f"wt{i[0]}")),
             "Es": arr((), lambda i: V.r("Es"))}
        if not self.restricted:
            d["Wd"] = arr((nw, n, self.nelec[1]), lambda i: V.c(f"wd{i[0]}_{i[1]}{i[2]}"))
        if self.restricted:
            d["C"] = cm.real_mat(V, "c", (n, self.nelec[0]))
        else:
            d["Cu"], d["Cd"] = cm.real_mat(V, "cu", (n, self.nelec[0])), cm.real_mat(V, "cd", (n, self.nelec[1]))
        return d

    def prepare_interp(self, it, inp):
        def derived(e):
            # propagate(): the overlaps it returns are calc_overlap(new walkers): evaluated for real with the (opaque) new walkers as cut points
            import numpy as _np
            ov = [k for k, v in enumerate(e.outvars) if _np.issubdtype(v.aval.dtype, _np.complexfloating) and len(v.aval.shape) == 1]
            wk = [k for k, v in enumerate(e.outvars) if _np.issubdtype(v.aval.dtype, _np.complexfloating) and len(v.aval.shape) == 3]
            assert len(ov) == 1 and len(wk) in (1, 2)
            return {ov[0]: wk}
        it.opaque_calls = {"propagate": {"real": [0], "derived": derived}, "qr_vmap": None, "qr_vmap_uhf": None, "stochastic_reconfiguration_local": None,
                           "_calc_energy_restricted": None, "_calc_energy": None, "optimize": None,
                           "_calc_force_bias_restricted": None, "_calc_force_bias": None}

    def call(self, **kw):
        import jax.numpy as jnp
        if self.restricted:
            C = kw["C"]
            wd = {"mo_coeff": C, "rdm1": jnp.array([C @ C.T, C @ C.T])}
            W = kw["Wu"]
        else:
            wd = {"mo_coeff": [kw["Cu"], kw["Cd"]], "rdm1": jnp.array([kw["Cu"] @ kw["Cu"].T, kw["Cd"] @ kw["Cd"].T])}
            W = [kw["Wu"], kw["Wd"]]
        hd = dict(self.hd0)
        pd = {"walkers": W, "weights": kw["weights"], "overlaps": kw["stale"], "e_estimate": kw["Es"], "pop_control_ene_shift": kw["Es"],
              "key": self.key, "n_killed_walkers": 0, "_verif_ovlp_err": jnp.zeros(())}
        s = self.sampler
        if self.entry == "propagate_phaseless":
            hd = self.ham.build_measurement_intermediates(hd, self.trial, wd)
            hd = self.ham.build_propagation_intermediates(hd, self.prop, self.trial, wd)
            e, pd = s.propagate_phaseless(self.ham, hd, self.prop, pd, self.trial, wd)
        else:
            obs = jnp.zeros_like(hd["h1"])
            e, pd = getattr(s, self.entry)(self.ham, hd, 0.0, obs, self.prop, pd, self.trial, wd)
        return pd["_verif_ovlp_err"]

    def relations(self, inp, out):
        # reachability: the hook was reached once per propagation step of the requested block structure
        n_prop = sum(1 for name, _ in self.interp.call_log if name == "propagate") if getattr(self, "interp", None) is not None else None
        expect = self.blocks[0] * self.blocks[1] * (1 if "nosr" in self.entry else self.blocks[2])
        rels = [("cached_overlaps_coherent_at_every_propagate_entry", out[()], Q(0))]
        if n_prop is not None and not isinstance(out[()], (complex, float)):
            rels.append(("propagate_entries_observed", Q(n_prop), Q(expect)))
        return rels


def cases(tier):
    out = []
    for entry in ENTRIES:
        for restricted in (True, False):
            for blocks in ((2, 2, 2), (1, 1, 1)):
                if blocks == (1, 1, 1) and entry != "propagate_phaseless_ad_nosr_norot":
                    continue
                out.append({"entry": entry, "restricted": restricted, "blocks": list(blocks)})
    if tier == "thorough":
        for entry in ENTRIES:
            out.append({"entry": entry, "restricted": False, "blocks": [2, 2, 2], "norb": 3, "nelec": [2, 1], "n_walkers": 3})
    return out


def run(args, seed, known):
    return engine.run_case(Coherence(args), seed=seed, known=known)


def replay(data):
    return engine.replay_file(Coherence(data["case_args"]), data)
