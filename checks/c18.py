"""C18 - trial optimisation is a differentiable SCF with orthonormal output (solver-decidable clauses).

(1) jax.jvp(linalg_utils._eigh) traced with the eigh contract stub: for A = V diag(w) V^T (V orthogonal: fully symbolic Cayley at n=2,
    exact rational instances at n=3; w symbolic with gaps >= 1e-5) and symbolic symmetric dA the rule's (dw, dV) satisfies the defining
    equations of the eigen-derivative  dA V + A dV = dV diag(w) + V diag(dw),  V^T dV + dV^T V = 0.
(2) for EVERY w (equal, nearly equal, anything) no denominator of the rule is zero: the derivative stays finite.
(3) rhf.optimize / uhf.optimize with n_opt_iter = 2 and the eigh contract stub (concrete ascending eigenvalues, exact rational
    orthogonal eigenvector matrices): every matrix handed to _eigh is the Fock matrix of the CURRENT density by definition
    (h1 + J[dm] - 1/2 K[dm], spin resolved for uhf: IR probe at the eigh operand), and the returned orbitals are orthonormal.
Not applicable: fixed point on a converged solution and agreement with an independent SCF (LAPACK eigenvectors, 30 iterations)."""
from fractions import Fraction

import numpy as np
import z3

from vf import engine, qdom
from vf.jx import arr, obj
from vf.qdom import Q
from . import common as cm

META = {
    "level": "model_checking",
    "trusted": ["z3 5.1.0", "JAX tracing of jax.jvp through the custom_jvp rule (A6)", "eigh contract stub (A2): the harness supplies (w, V) satisfying "
                "A V = V diag(w), V^T V = I, w ascending for the operand it constructs"],
    "assumptions": ["A1 reals for floats", "A2 LAPACK's eigh itself is not verified", "non-degenerate clause: |w_i - w_j| >= 1e-5 for i != j",
                    "SCF convergence / fixed point / agreement with an independent solver: not applicable (not solver questions at reachable size)"],
    "bounds": {"quick": "eigen-derivative n = 2 (symbolic rotation) and n = 3 (2 rational rotations); finiteness n = 2, 3 for all w; optimize: rhf (3;1,1), "
                        "(3;2,2), uhf (3;2,1), (3;1,1), 1-2 Cholesky matrices, n_opt_iter = 2", "thorough": "n = 4 rational rotations, uhf (4;2,1)"},
    "outside": "convergence of the SCF, behaviour over 30 iterations, complex Hermitian input, LAPACK",
}


class EighJvp(engine.Case):
    check_id = "C18"
    stubs = dict(det=True, inv=True, expm=False, qr=False, eigh=True)
    holo = False
    n_validate = 0
    n_prescreen = 0

    def __init__(self, args):
        self.args = args
        self.n, self.rot, self.mode = args["n"], args["rot"], args["mode"]  # mode: equations | finite
        self.name = f"eigh-jvp:{self.mode}:n={self.n}:rot={self.rot}"
        self.timeout_s = 300

    def functions(self):
        return ["ad_afqmc.linalg_utils._eigh", "ad_afqmc.linalg_utils._eigh_jvp", "ad_afqmc.linalg_utils._eigh_jvp_jitted_nob"]

    def inputs(self, V):
        n = self.n
        Vm = cm.cayley(V, "t", n) if self.rot == "sym" else cm.cayley_conc(V, n, int(self.rot))
        w = arr((n,), lambda i: V.r(f"w{i[0]}"))
        A = obj((n, n))
        for i in range(n):
            for j in range(n):
                acc = None
                for k in range(n):
                    t = Vm[i, k] * w[k] * Vm[j, k]
                    acc = t if acc is None else acc + t
                A[i, j] = acc
        return {"A": A, "dA": cm.symm(V, "da", n), "w": w, "V": Vm}

    def pre(self, inp):
        w = [qdom.tz(x.c[0]) for x in inp["w"]]
        out = [w[i] <= w[i + 1] for i in range(self.n - 1)]
        if self.mode == "equations":
            gap = qdom.tz(Fraction(1.0e-5))  # the code's float64 threshold deg_thresh = 1.0e-5
            out += [w[i + 1] - w[i] >= gap for i in range(self.n - 1)]
        return out

    def prepare_interp(self, it, inp):
        it.eigh_queue = [(inp["w"], inp["V"])] * 4

    def call(self, **kw):
        import jax
        from ad_afqmc import linalg_utils
        (w, v), (dw, dv) = jax.jvp(linalg_utils._eigh, (kw["A"],), (kw["dA"],))
        return w, v, dw, dv

    def relations(self, inp, out):
        w, v, dw, dv = out
        n = self.n
        rels = []
        if self.mode == "finite":
            return [("eigenvalue_derivative_defined", dw[0], dw[0])]
        A, dA = inp["A"], inp["dA"]
        lhs = cm.matmul(dA, v) + cm.matmul(A, dv)
        for i in range(n):
            for j in range(n):
                rels.append((f"defining_eq[{i},{j}]", lhs[i, j], dv[i, j] * w[j] + v[i, j] * dw[j]))
        g = cm.matmul(cm.transpose(v), dv)
        for i in range(n):
            for j in range(i, n):
                rels.append((f"gauge[{i},{j}]", g[i, j] + g[j, i], Q(0)))
        return rels


def run_finite(args, seed, known):
    """for every ascending w (gaps arbitrary, including 0): no quantity the JVP rule divides by is zero"""
    import time
    import jax
    import jax.numpy as jnp
    from vf import jx, stubs
    case = EighJvp(dict(args, mode="finite"))
    res = {"case": case.name, "obligations": [], "violations": [], "inconclusive": [], "errors": [], "known": [], "samples": [],
           "functions": case.functions()}
    t0 = time.time()
    try:
        qdom.reset()
        V = engine.SymV(holo=False)
        inp = case.inputs(V)
        names = list(inp)
        ex = engine.example_like(case.inputs(engine.ConcV(3)), set())
        f = engine._flatten_call(case, names)
        with stubs.installed(**case.stubs):
            closed = jax.make_jaxpr(f)(*[jnp.asarray(ex[k]) for k in names])
        qdom.reset()
        V = engine.SymV(holo=False)
        inp = case.inputs(V)
        it = jx.Interp()
        case.prepare_interp(it, inp)
        it.run(closed, [inp[k] for k in names])
        pre = case.pre(inp)
        for k in sorted(qdom.ATOMS.inverted):
            v = qdom.ATOMS.value(k)
            if qdom.cconst(v) or qdom.ATOMS.names[k] == "cayley":
                continue
            s = z3.Solver()
            s.set("timeout", 60000)
            s.add(*pre)
            s.add(qdom.tz(v[0]) == 0, qdom.tz(v[1]) == 0)
            t1 = time.time()
            r = str(s.check())
            ob = {"label": f"denominator_nonzero[{k}:{qdom.ATOMS.names[k]}]", "status": r, "seconds": round(time.time() - t1, 3), "how": "LRA"}
            if r == "sat":
                m = s.model()
                wv = [float(engine.dec.model_value(m, z3.Real(f"w{i}"))) for i in range(case.n)]
                # replay: the real rule on a matrix with these eigenvalues
                from ad_afqmc import linalg_utils
                A = np.diag(wv)
                dA = np.ones((case.n, case.n))
                (_, _), (dw, dv) = jax.jvp(linalg_utils._eigh, (jnp.array(A),), (jnp.array(dA),))
                bad = not (np.all(np.isfinite(dw)) and np.all(np.isfinite(dv)))
                if bad:
                    from vf.engine import VERIF
                    import json, os
                    os.makedirs(os.path.join(VERIF, "replays"), exist_ok=True)
                    path = os.path.join(VERIF, "replays", f"C18_{case.name.replace(':', '_')}_den{k}.json")
                    json.dump({"check": "C18", "case_args": args, "label": ob["label"], "eigenvalues": wv}, open(path, "w"))
                    key = f"{case.name}:denominator"
                    vv = {"label": ob["label"], "key": key, "replay": path, "detail": f"eigenvalues {wv}: the real JVP returns non-finite values"}
                    (res["known"] if key in (known or {}) else res["violations"]).append(vv)
                    ob["status"] = "violated"
                else:
                    ob["status"] = "spurious"
                    res["errors"].append(f"{ob['label']}: zero denominator at w={wv} does not make the real rule non-finite")
            elif r != "unsat":
                res["inconclusive"].append(ob["label"])
            res["obligations"].append(ob)
        if not res["obligations"]:
            res["errors"].append("no denominators found in the JVP rule (vacuous)")
    except Exception as ex:
        import traceback
        res["errors"].append(f"{type(ex).__name__}: {ex}\n{traceback.format_exc()[-1500:]}")
    res["wall_s"] = round(time.time() - t0, 3)
    return res


class Optimize(engine.Case):
    check_id = "C18"
    stubs = dict(det=True, inv=True, expm=False, qr=False, eigh=True)
    n_validate = 0
    n_prescreen = 0

    def __init__(self, args):
        self.args = args
        self.kind, self.norb, self.nelec, self.nchol = args["kind"], args["norb"], tuple(args["nelec"]), args.get("nchol", 1)
        self.niter = 2
        self.name = f"optimize:{self.kind}:{cm.shape_tag(self.norb, self.nelec, self.nchol)}:n_opt_iter={self.niter}"
        from ad_afqmc import wavefunctions
        self.trial = getattr(wavefunctions, self.kind)(self.norb, self.nelec, n_opt_iter=self.niter)
        self.timeout_s = 300

    def functions(self):
        return [f"ad_afqmc.wavefunctions.{self.kind}.optimize", "ad_afqmc.linalg_utils._eigh"]

    def inputs(self, V):
        n = self.norb
        d = cm.ham_inputs(V, n, self.nchol, spin_dep=self.kind == "uhf")
        d.pop("h0")
        if self.kind == "rhf":
            d["C"] = cm.real_mat(V, "c", (n, self.nelec[0]))
        else:
            d["Cu"] = cm.real_mat(V, "cu", (n, self.nelec[0]))
            d["Cd"] = cm.real_mat(V, "cd", (n, self.nelec[1]))
        return d

    def _oracles(self):
        """(w, V) per eigh call: concrete ascending eigenvalues, exact rational orthogonal eigenvectors"""
        n = self.norb
        ncalls = self.niter * (1 if self.kind == "rhf" else 2)
        out = []
        for c in range(ncalls):
            Vm = cm.cayley_conc(engine.ConcV(0), n, 10 + c)
            w = arr((n,), lambda i: Q(Fraction(i[0] + 1 + c, 2)))
            out.append((w, Vm))
        return out

    def prepare_interp(self, it, inp):
        it.eigh_queue = self._oracles()

    def call(self, **kw):
        import jax
        from ad_afqmc import linalg_utils
        hd = {"h1": kw["h1"], "chol": kw["chol"]}
        wd = {"mo_coeff": kw["C"]} if self.kind == "rhf" else {"mo_coeff": [kw["Cu"], kw["Cd"]]}
        # observe every matrix handed to _eigh and the eigenvectors it returns (the wrapper only records; the scan is unrolled
        # by disable_jit so that the recorded values are ordinary outputs of the traced function)
        seen = []
        orig = linalg_utils._eigh

        def spy(a):
            w, v = orig(a)
            seen.append((a, v))
            return w, v
        linalg_utils._eigh = spy
        try:
            with jax.disable_jit():
                out = self.trial.optimize(hd, wd)
        finally:
            linalg_utils._eigh = orig
        return out["mo_coeff"], [s_[0] for s_ in seen], [s_[1] for s_ in seen]

    def _fock(self, h1, L, dm_up, dm_dn):
        """F_s = h1[s] + sum_g L_g tr(L_g (dm_up + dm_dn)) - sum_g L_g dm_s L_g   (definition; for rhf dm_up = dm_dn = dm/2, h1 averaged)"""
        n = self.norb
        out = []
        tot = dm_up + dm_dn
        for s, dm in enumerate((dm_up, dm_dn)):
            F = h1[s].copy()
            for g in range(L.shape[0]):
                tr = None
                for p in range(n):
                    for q in range(n):
                        t = L[g][p, q] * tot[q, p]
                        tr = t if tr is None else tr + t
                K = cm.matmul(L[g], cm.matmul(dm, L[g]))
                for p in range(n):
                    for q in range(n):
                        F[p, q] = F[p, q] + L[g][p, q] * tr - K[p, q]
            out.append(F)
        return out

    def relations(self, inp, out):
        n = self.norb
        L = cm.chol3(inp, n)
        h1 = inp["h1"]
        out, probes, vecs = out
        orac = [(None, v) for v in vecs]
        rels = []
        half = Fraction(1, 2)
        if self.kind == "rhf":
            C = inp["C"]
            hav = (h1[0] + h1[1]) * half
            dm_half = cm.matmul(C, cm.transpose(C))  # per-spin density of the initial guess
            for itn in range(self.niter):
                F = self._fock(np.stack([hav, hav]), L, dm_half, dm_half)[0]
                op = probes[itn]
                for p in range(n):
                    for q in range(n):
                        rels.append((f"fock_iter{itn}[{p},{q}]", op[p, q], F[p, q]))
                Vocc = orac[itn][1][:, : self.nelec[0]]
                dm_half = cm.matmul(Vocc, cm.transpose(Vocc))
            final = [out]
            ne = [self.nelec[0]]
        else:
            dmu = cm.matmul(inp["Cu"], cm.transpose(inp["Cu"]))
            dmd = cm.matmul(inp["Cd"], cm.transpose(inp["Cd"]))
            for itn in range(self.niter):
                Fu, Fd = self._fock(h1, L, dmu, dmd)
                for s, (F, op) in enumerate(((Fu, probes[2 * itn]), (Fd, probes[2 * itn + 1]))):
                    for p in range(n):
                        for q in range(n):
                            rels.append((f"fock_iter{itn}_spin{s}[{p},{q}]", op[p, q], F[p, q]))
                Vu = orac[2 * itn][1][:, : self.nelec[0]]
                Vd = orac[2 * itn + 1][1][:, : self.nelec[1]]
                dmu, dmd = cm.matmul(Vu, cm.transpose(Vu)), cm.matmul(Vd, cm.transpose(Vd))
            final = [out[0], out[1]]
            ne = list(self.nelec)
        for s, (Cf, k) in enumerate(zip(final, ne)):
            G = cm.matmul(cm.transpose(Cf), Cf) if k else None
            for i in range(k):
                for j in range(i, k):
                    rels.append((f"orthonormal_spin{s}[{i},{j}]", G[i, j], Q(1 if i == j else 0)))
        return rels


def cases(tier):
    out = [{"type": "jvp", "n": 2, "rot": "sym", "mode": "equations"}, {"type": "jvp", "n": 3, "rot": 0, "mode": "equations"},
           {"type": "jvp", "n": 3, "rot": 1, "mode": "equations"}, {"type": "finite", "n": 2, "rot": 0}, {"type": "finite", "n": 3, "rot": 0},
           {"type": "opt", "kind": "rhf", "norb": 3, "nelec": [1, 1], "nchol": 2}, {"type": "opt", "kind": "rhf", "norb": 3, "nelec": [2, 2], "nchol": 1},
           {"type": "opt", "kind": "uhf", "norb": 3, "nelec": [2, 1], "nchol": 1}, {"type": "opt", "kind": "uhf", "norb": 3, "nelec": [1, 1], "nchol": 2}]
    if tier == "thorough":
        out += [{"type": "jvp", "n": 4, "rot": 0, "mode": "equations"}, {"type": "finite", "n": 4, "rot": 0},
                {"type": "opt", "kind": "uhf", "norb": 4, "nelec": [2, 1], "nchol": 1}]
    return out


def run(args, seed, known):
    if args["type"] == "finite":
        return run_finite(args, seed, known)
    if args["type"] == "jvp":
        return engine.run_case(EighJvp(args), seed=seed, known=known)
    return engine.run_case(Optimize(args), seed=seed, known=known)


def replay(data):
    a = data["case_args"]
    if a["type"] == "jvp":
        return engine.replay_file(EighJvp(a), data)
    if a["type"] == "opt":
        return engine.replay_file(Optimize(a), data)
    return {"violates": True, "summary": str(data)}
