"""Multi-Slater (determinant-list) trials: builders shared by C01, C02, C03 and C11.

The real `pyscf_interface.get_excitations` / `parity` are *executed* on each enumerated determinant list
with index-coded coefficients (value k+1 for determinant k), which recovers, for every slot of the
returned coefficient tables, which determinant it holds and with which sign.  The symbolic trial then
carries one solver variable per determinant coefficient in exactly those slots, so the index tables,
the zero padding and the parity factors under test are the ones the real routine produced.
"""
import itertools

import numpy as np

from vf import engine, fock
from vf.jx import arr, obj
from vf.qdom import Q
from . import common as cm


def all_dets(norb, nelec):
    out = []
    for a in itertools.combinations(range(norb), nelec[0]):
        for b in itertools.combinations(range(norb), nelec[1]):
            out.append((tuple(1 if p in a else 0 for p in range(norb)), tuple(1 if p in b else 0 for p in range(norb))))
    return out


def tables(dets, max_excitation):
    """run the real get_excitations on the list with index-coded coefficients"""
    from ad_afqmc import pyscf_interface

    state = {d: float(k + 1) for k, d in enumerate(dets)}
    Acre, Ades, Bcre, Bdes, coeff, ref_det = pyscf_interface.get_excitations(state=state, max_excitation=max_excitation)
    slots = {}
    for key, arr_ in coeff.items():
        ent = []
        for v in np.asarray(arr_).reshape(-1):
            if v == 0:
                ent.append(None)
            else:
                k = int(round(abs(v))) - 1
                assert abs(abs(v) - (k + 1)) < 1e-12
                ent.append((k, 1 if v > 0 else -1))
        slots[key] = ent
    return Acre, Ades, Bcre, Bdes, slots, np.asarray(ref_det)


class MSBase:
    def setup_ms(self, args):
        from ad_afqmc import wavefunctions

        self.norb, self.nelec = args["norb"], tuple(args["nelec"])
        self.dets = [tuple(map(tuple, d)) for d in args["dets"]]
        self.maxex = args["max_excitation"]
        self.Acre, self.Ades, self.Bcre, self.Bdes, self.slots, self.ref_det = tables(self.dets, self.maxex)
        self.trial = wavefunctions.multislater(self.norb, self.nelec, max_excitation=self.maxex,
                                               n_batch=args.get("n_batch", 1))
        self.coeff_keys = sorted(self.slots.keys())

    def ms_inputs(self, V):
        c = arr((len(self.dets),), lambda i: V.r(f"c{i[0]}"))
        d = {}
        for key in self.coeff_keys:
            ent = self.slots[key]
            a = obj((len(ent),))
            for s, e in enumerate(ent):
                a[s] = V.k(0) if e is None else (c[e[0]] if e[1] > 0 else -c[e[0]])
            d[f"coeff_{key[0]}_{key[1]}"] = a
        d["cvec"] = c
        return d

    def wave_data(self, kw):
        coeff = {key: kw[f"coeff_{key[0]}_{key[1]}"] for key in self.coeff_keys}
        return {"Acre": self.Acre, "Ades": self.Ades, "Bcre": self.Bcre, "Bdes": self.Bdes, "coeff": coeff,
                "ref_det": self.ref_det}

    def state(self, inp):
        c = inp["cvec"]
        psi = {}
        one = cm.fone(c[0])
        for k, (da, db) in enumerate(self.dets):
            st = fock.det_state(self.norb, [p for p in range(self.norb) if da[p]], [p for p in range(self.norb) if db[p]], one)
            psi = fock.add_states(psi, fock.scale(st, c[k]))
        return psi

    def ms_tag(self):
        ref = self.dets[0]
        return f"{cm.shape_tag(self.norb, self.nelec)}:ndet={len(self.dets)}:ref={''.join(map(str, ref[0]))}|{''.join(map(str, ref[1]))}:maxex={self.maxex}"


class MSOverlapCase(MSBase, engine.Case):
    check_id = "C01"

    def __init__(self, args):
        self.args = args
        self.setup_ms(args)
        self.entry = args.get("entry", "u")
        self.check_id = args.get("check_id", "C01")
        self.name = f"overlap:multislater:{self.ms_tag()}:{self.entry}:{args.get('tag', '')}"
        self.timeout_s = args.get("timeout", 120)

    def functions(self):
        return ["ad_afqmc.pyscf_interface.get_excitations", "ad_afqmc.pyscf_interface.parity",
                "ad_afqmc.wavefunctions.multislater._calc_overlap" + ("_restricted" if self.entry == "r" else "")]

    def inputs(self, V):
        d = {"Wu": cm.walker(V, "wu", self.norb, self.nelec[0])}
        if self.entry == "u":
            d["Wd"] = cm.walker(V, "wd", self.norb, self.nelec[1])
        d.update(self.ms_inputs(V))
        return d

    def call(self, **kw):
        wd = self.wave_data(kw)
        if self.entry == "u":
            return self.trial._calc_overlap(kw["Wu"], kw["Wd"], wd)
        return self.trial._calc_overlap_restricted(kw["Wu"], wd)

    def relations(self, inp, out):
        Wu = inp["Wu"]
        Wd = inp["Wd"] if self.entry == "u" else Wu[:, : self.nelec[1]]
        psi = self.state(inp)
        phi = fock.slater(self.norb, Wu, Wd, cm.fone(Wu[0, 0]))
        return [("overlap", out[()], fock.inner(psi, phi))]


def rank(d, ref):
    return (sum(abs(a - b) for a, b in zip(d[0], ref[0])) // 2, sum(abs(a - b) for a, b in zip(d[1], ref[1])) // 2)


def max_rank(dets):
    return max(sum(rank(d, dets[0])) for d in dets)


def det_lists(tier, seed=0):
    """(norb, nelec, list, tag): every determinant of (3;2,1) as reference of the full list; selected and
    seeded-random sub-lists of (4;2,2) and (3;1,1) with aufbau and non-aufbau references"""
    import random

    out = []
    full = all_dets(3, (2, 1))
    refs = range(len(full)) if tier == "thorough" else (0, 4, 8, 5)
    for r in refs:
        lst = [full[r]] + [d for k, d in enumerate(full) if k != r]
        out.append((3, (2, 1), lst, f"full9-ref{r}"))
    rng = random.Random(seed)
    full4 = all_dets(4, (2, 2))
    n4 = 8 if tier == "thorough" else 3
    for t in range(n4):
        lst = rng.sample(full4, 4)
        out.append((4, (2, 2), lst, f"rand4-{t}"))
    # aufbau reference with one of each excitation class
    auf = ((1, 1, 0, 0), (1, 1, 0, 0))
    out.append((4, (2, 2), [auf, ((1, 0, 1, 0), (1, 1, 0, 0)), ((1, 1, 0, 0), (0, 1, 0, 1)), ((0, 1, 1, 0), (1, 0, 0, 1)),
                            ((0, 0, 1, 1), (1, 1, 0, 0)), ((0, 0, 1, 1), (0, 0, 1, 1))], "aufbau6"))
    # non-aufbau reference shifted by one orbital
    na = ((0, 1, 1, 0), (0, 1, 1, 0))
    out.append((4, (2, 2), [na, ((1, 1, 0, 0), (0, 1, 1, 0)), ((0, 1, 1, 0), (1, 0, 1, 0)), ((1, 0, 0, 1), (0, 1, 0, 1))], "nonaufbau4"))
    f311 = all_dets(3, (1, 1))
    out.append((3, (1, 1), f311[4:] + f311[:4], "full9-311-ref4"))
    return out


def overlap_cases(tier, check_id="C01"):
    out = []
    for norb, nelec, lst, tag in det_lists(tier):
        mr = max(1, max_rank(lst))
        for mx in ((mr,) if tier == "quick" else (mr, mr + 1)):
            out.append({"type": "ms", "norb": norb, "nelec": list(nelec), "dets": [list(map(list, d)) for d in lst],
                        "max_excitation": mx, "entry": "u", "tag": tag, "check_id": check_id})
        if nelec[0] == nelec[1] and lst[0][0] == lst[0][1]:
            out.append({"type": "ms", "norb": norb, "nelec": list(nelec), "dets": [list(map(list, d)) for d in lst],
                        "max_excitation": mr, "entry": "r", "tag": tag, "check_id": check_id})
    return out
