"""C04 - one phaseless step is an exact importance-sampling reweighting of exp(-dt (H - E_shift)).

Part A (graded domain, s = sqrt(dt)):  for every occupation-number component I,
    Gauss_x[ imp(x) * phi'_I(x) / <psi_T|phi'(x)> ]  ==  [(1 - dt (H - E_shift)) phi]_I / <psi_T|phi>     through s^3
with imp the complex importance function of the real propagate() (read through the guarded hook), phi' the walker
it returns, the field average taken exactly (Gaussian moments), H applied by the Fock-space oracle.
Part B (IEEE-754, checks/c04b.py): the weight actually applied = |imp| * max(0, cos theta) with the NaN / window rule.
"""
from fractions import Fraction

import numpy as np

from vf import engine_g, fock, qdom, gdom
from vf.gdom import G
from vf.jx import arr, obj
from vf.qdom import Q
from . import common as cm
from . import c04b

META = {
    "level": "model_checking",
    "trusted": ["z3 5.1.0", "JAX tracing (A6) with dt as a traced input (jax.disable_jit)", "det/inv/expm contract stubs (A2): expm = power series",
                "exact Gaussian moments of the auxiliary fields", "front-end polynomial normal form", "z3 QF_FP for the weight rule (part B)"],
    "assumptions": ["A1 reals for floats in part A (part B is decided in IEEE-754 binary64)", "A2 det/inv/expm stubs",
                    "A3 for part B: |imp|, theta, cos(theta) havocked under their IEEE contracts",
                    "series in s = sqrt(dt) truncated at s^3: agreement of the coefficients of s^0..s^3 is the statement 'residual = O(dt^2)'",
                    "hook ANKIT76_AD_AFQMC_VERIF=1 exposes imp_fun/theta (observation only)"],
    "bounds": {"quick": "(2;1,1;1) and (3;1,1;2) uhf+unrestricted, (2;1,1;1),(3;1,1;1) rhf+restricted, noci(2) and cisd trials at (2;1,1;1)/(3;1,1;1); "
                        "n_exp_terms 6; every h0, symmetric h1 per spin, symmetric Cholesky matrices, rdm1 (mean-field shift), E_shift, walker symbolic",
               "thorough": "adds (3;1,1;2), (2;1,1;3), ucisd at (2;1,1;1), noci at (2;1,1;2), n_exp_terms 4"},
    "outside": "orders >= s^4 (dt^2); convergence radius in dt; more than 3 Cholesky matrices; accuracy of exp/cos/angle themselves",
}


class PhaselessA(engine_g.GCase):
    check_id = "C04"
    order = 3
    claim_orders = (0, 1, 2, 3)
    validate_s0 = Fraction(1, 32)

    def __init__(self, args):
        self.args = args
        self.kind = cm.KINDS[args["kind"]]
        self.norb, self.nelec, self.nchol = args["norb"], tuple(args["nelec"]), args["nchol"]
        self.restricted = bool(args.get("restricted", False))
        self.opt = args.get("opt", {})
        self.nexp = args.get("n_exp_terms", 6)
        self.nf = self.nchol
        self.name = f"reweighting:{self.kind.name}:{'restricted' if self.restricted else 'unrestricted'}:" \
                    f"{cm.shape_tag(self.norb, self.nelec, self.nchol)}:nexp={self.nexp}"
        self.timeout_s = args.get("timeout", 300)
        from ad_afqmc import wavefunctions
        self.trial = self.kind.make(wavefunctions, self.norb, self.nelec, self.opt)

    def functions(self):
        c = type(self.trial).__name__
        pr = "propagator_restricted" if self.restricted else "propagator_unrestricted"
        return [f"ad_afqmc.propagation.{pr}._build_propagation_intermediates", f"ad_afqmc.propagation.{pr}._apply_trotprop",
                "ad_afqmc.propagation.propagator._apply_trotprop_det", "ad_afqmc.propagation.propagator.propagate",
                f"ad_afqmc.wavefunctions.{c}.calc_force_bias", f"ad_afqmc.wavefunctions.{c}.calc_overlap",
                f"ad_afqmc.wavefunctions.{c}._build_measurement_intermediates"]

    def inputs(self, V):
        n = self.norb
        d = {"dt": arr((), lambda i: V.s(2)), "x": arr((self.nchol,), lambda i: V.x(i[0])),
             "Wu": cm.walker(V, "wu", n, self.nelec[0])}
        if not self.restricted:
            d["Wd"] = cm.walker(V, "wd", n, self.nelec[1])
        d.update(cm.ham_inputs(V, n, self.nchol, spin_dep=not self.restricted))
        d["rdm1"] = np.stack([cm.symm(V, "ra", n), cm.symm(V, "rb", n)])
        d["Es"] = arr((), lambda i: V.r("Es"))
        d.update(self.kind.params(V, n, self.nelec, self.opt))
        return d

    BASE = ("dt", "x", "Wu", "Wd", "h0", "h1", "chol", "rdm1", "Es")

    def _params(self, kw):
        return {k: v for k, v in kw.items() if k not in self.BASE}

    def call(self, **kw):
        import jax
        import jax.numpy as jnp
        from ad_afqmc import propagation
        p = self._params(kw)
        with jax.disable_jit():
            cls = propagation.propagator_restricted if self.restricted else propagation.propagator_unrestricted
            prop = cls(dt=kw["dt"], n_walkers=1, n_exp_terms=self.nexp)
            wd = self.kind.wave_data(p)
            wd["rdm1"] = kw["rdm1"]
            hd = {"h0": kw["h0"], "h1": kw["h1"], "chol": kw["chol"], "ene0": 0.0}
            hd = self.trial._build_measurement_intermediates(hd, wd)
            hd = prop._build_propagation_intermediates(hd, self.trial, wd)
            W = kw["Wu"][None] if self.restricted else [kw["Wu"][None], kw["Wd"][None]]
            ov0 = self.trial.calc_overlap(W, wd)
            pd = {"walkers": W, "weights": jnp.ones(1), "overlaps": ov0, "pop_control_ene_shift": kw["Es"],
                  "e_estimate": kw["Es"], "_verif_imp_fun": jnp.zeros(1) + 0.0j, "_verif_theta": jnp.zeros(1)}
            pd = prop.propagate(self.trial, hd, pd, kw["x"][None], wd)
            Wn = pd["walkers"]
            fb = self.trial.calc_force_bias(W, hd, wd)[0]
            if self.restricted:
                return pd["_verif_imp_fun"][0], Wn[0], ov0[0], pd["overlaps"][0], pd["_verif_theta"][0], fb, hd["mf_shifts"]
            return pd["_verif_imp_fun"][0], Wn[0][0], Wn[1][0], ov0[0], pd["overlaps"][0], pd["_verif_theta"][0], fb, hd["mf_shifts"]

    def _unpack(self, out):
        if self.restricted:
            imp, Wun, ov0, ov1, theta, fb, mf = out
            Wdn = Wun[:, : self.nelec[1]]
        else:
            imp, Wun, Wdn, ov0, ov1, theta, fb, mf = out
        self._extra = (theta, fb, mf)
        return imp[()], Wun, Wdn, ov0[()], ov1[()]

    def _consts(self, inp):
        q = {}
        for k, v in inp.items():
            if k in ("dt", "x"):
                continue
            q[k] = np.vectorize(lambda g: g.const() if isinstance(g, G) else g, otypes=[object])(v)
        return q

    def _oracle(self, q):
        """components of phi and of (H - Es) phi, and <psi|phi>, in the basis the trial is written in"""
        n = self.norb
        p = self._params(q)
        Wu = q["Wu"]
        Wd = Wu[:, : self.nelec[1]] if self.restricted else q["Wd"]
        one = cm.fone(Wu[0, 0])
        phi = cm.walker_state(self.kind, p, n, self.nelec, Wu, Wd)
        h1 = q["h1"]
        if self.restricted:
            # the restricted propagator/trial pair is defined for spin-independent h1 (it uses the spin average)
            pass
        Hphi = fock.apply_H(n, q["h0"][()], h1, cm.chol3(q, n), phi)
        psi = self.kind.state(p, n, self.nelec)
        return phi, Hphi, fock.inner(psi, phi), psi

    def relations(self, inp, out):
        imp, Wun, Wdn, ov0, ov1 = self._unpack(out)
        q = self._consts(inp)
        phi, Hphi, ovo, psi = self._oracle(q)
        p = self._params(q)
        one = G.lift(1)
        phin = cm.walker_state(self.kind, p, self.norb, self.nelec, Wun, Wdn) if False else fock.slater(self.norb, Wun, Wdn, one)
        Es = q["Es"][()]
        ov0q = ov0.const() if isinstance(ov0, G) else ov0
        rels = [("overlap_old", ov0q, ovo)]
        ov0r = qdom.recognize(ov0q)
        fac = imp * ov0r / ov1  # = exp(...) as the code computed it (imp already contains ovlp'/ovlp)
        for I in sorted(set(phin) | set(phi) | set(Hphi)):
            lhs = (fac * phin.get(I, G())).gauss() if I in phin else {}
            a = phi.get(I, Q(0))
            b = Hphi.get(I, Q(0)) - Es * a
            rhs = {0: a, 2: -b}
            rels.append((f"component[{I:0{2 * self.norb}b}]", lhs, rhs))
        # theta = arg( exp(-sqrt(dt) sum_g (x_g - f_g) m_g) * <psi|phi'>/<psi|phi> ): the operands of the atan2 that produces
        # the hooked theta (IR probe) against that expression, with f the field shift -sqrt(dt)(i fb - m), m the mean-field shift
        theta, fb, mf = self._extra
        pr = self.interp.probes.get("angle", [])
        pr2 = self.interp.probes.get("atan2", [])
        if len(pr) + len(pr2) != 1:
            raise RuntimeError(f"expected exactly one atan2 feeding theta, found {len(pr) + len(pr2)}")
        if pr:
            z_code = pr[0].reshape(-1)[0]
        else:
            zim, zre = pr2[0][0].reshape(-1)[0], pr2[0][1].reshape(-1)[0]
            z_code = zre + G.lift(Q((0, 1))) * zim
        s = G.s(1)
        I_ = G.lift(Q((0, 1)))
        expo = G()
        for g in range(self.nchol):
            f_g = -(s * (I_ * fb[g] - mf[g]))
            expo = expo - s * (inp["x"][g] - f_g) * mf[g]
        z_or = expo.exp() * ov1 / ov0r
        rels.append(("theta_argument", z_code, z_or))
        return rels

    def residual(self, inp, out, s, vals, rerun=None):
        """numeric replay: Gauss-Hermite average of imp * phi'_I / ovlp' on the real code vs the oracle series truncated at s^3"""
        from numpy.polynomial.hermite_e import hermegauss
        import itertools
        nodes, wts = hermegauss(10)
        wts = wts / np.sqrt(2 * np.pi)
        q = {k: v for k, v in inp.items() if k not in ("dt", "x")}
        phi, Hphi, ovo, psi = self._oracle(q)
        Es = complex(q["Es"][()])
        acc = {}
        for combo in itertools.product(range(len(nodes)), repeat=self.nchol):
            xs = [float(nodes[i]) for i in combo]
            w = float(np.prod([wts[i] for i in combo]))
            _, o = rerun(xs)
            imp, Wun, Wdn, ov0, ov1 = self._unpack(o)
            phin = fock.slater(self.norb, np.asarray(Wun, dtype=object), np.asarray(Wdn, dtype=object), 1.0)
            for I, amp in phin.items():
                acc[I] = acc.get(I, 0j) + w * complex(imp) * complex(amp) / complex(ov1)
        res = {}
        dt = s * s
        # theta: the hooked phase of the real code vs the phase of exp(-sqrt(dt) sum (x - f) m) * ovlp'/ovlp at the replayed fields
        imp0, _, _, ov0_, ov1_ = self._unpack(out)
        theta, fb, mf = self._extra
        xs0 = [complex(v) for v in np.asarray(inp["x"], dtype=object).reshape(-1)]
        expo = 0j
        for g in range(self.nchol):
            f_g = -s * (1j * complex(fb[g]) - complex(mf[g]))
            expo += -s * (xs0[g] - f_g) * complex(mf[g])
        z = np.exp(expo) * complex(ov1_) / complex(ov0_)
        res["theta_argument"] = np.exp(1j * float(np.real(theta))) - z / abs(z)
        for I in set(acc) | set(phi):
            rhs = (complex(phi.get(I, 0)) - dt * (complex(Hphi.get(I, 0)) - Es * complex(phi.get(I, 0)))) / complex(ovo)
            res[f"component[{I:0{2 * self.norb}b}]"] = acc.get(I, 0j) - rhs
        return res


def cases(tier):
    out = []
    A = [("uhf", 2, (1, 1), 1, False, {}), ("uhf", 2, (1, 1), 2, False, {}), ("uhf", 3, (1, 1), 1, False, {}),
         ("rhf", 2, (1, 1), 1, True, {}), ("rhf", 3, (1, 1), 1, True, {}), ("rhf", 2, (1, 1), 2, True, {}),
         ("noci", 2, (1, 1), 1, False, {"ndets": 2}), ("cisd", 3, (1, 1), 1, True, {}), ("uhf", 2, (1, 1), 1, False, {"nexp": 3})]
    if tier == "thorough":
        # measured over budget and therefore not run: uhf (3;2,1;1), ucisd (3;1,1;1), noci(2) (3;1,1;1)
        A += [("uhf", 3, (1, 1), 2, False, {}), ("uhf", 2, (1, 1), 3, False, {}), ("ucisd", 2, (1, 1), 1, False, {"moB_ident": 1}),
              ("rhf", 3, (1, 1), 2, True, {}), ("uhf", 2, (1, 1), 1, False, {"nexp": 4}), ("noci", 2, (1, 1), 2, False, {"ndets": 2})]
    for kind, norb, nelec, nchol, restricted, opt in A:
        opt = dict(opt)
        nexp = opt.pop("nexp", 6)
        out.append({"type": "A", "kind": kind, "norb": norb, "nelec": list(nelec), "nchol": nchol, "restricted": restricted, "opt": opt,
                    "n_exp_terms": nexp})
    out += c04b.cases(tier)
    return out


def run(args, seed, known):
    if args["type"] == "A":
        return engine_g.run_gcase(PhaselessA(args), seed=seed, known=known)
    return c04b.run(args, seed, known)  # type "B"


def replay(data):
    if data["case_args"]["type"] == "A":
        return engine_g.replay_file_g(PhaselessA(data["case_args"]), data)
    return c04b.replay(data)
