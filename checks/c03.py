"""C03 - force bias = <psi_T|L_g|phi>/<psi_T|phi> for every Cholesky operator."""
from . import common as cm
from . import wfcase, mslater

META = {
    "level": "model_checking",
    "trusted": ["z3 5.1.0 (nlsat)", "JAX tracing incl. its reverse-mode transposition (the traced jaxpr contains the vjp program)",
                "det/inv contract stubs with textbook JVP rules (validated numerically at start-up)"],
    "assumptions": ["A1 reals for floats; every model replayed on the real code in float64",
                    "A2 det/inv contract stubs (Leibniz / adjugate; d det = det tr(A^-1 dA), d A^-1 = -A^-1 dA A^-1)",
                    "A6 tracing = execution", "matrices the code inverts are invertible (non-vanishing overlaps)",
                    "UCISD/GCISD one-particle bases orthogonal (identity, permutation or Cayley-parametrised)"],
    "bounds": {"quick": "norb<=4, <=2 electrons per spin, 1-2 Cholesky matrices, all walker/Hamiltonian/trial parameters symbolic",
               "thorough": "adds open shells (4;2,1),(3;2,0), 3 NOCI determinants, Cayley-orthogonal UCISD beta basis at norb 3"},
    "outside": "norb>4, rounding, LAPACK, complex trial parameters",
}


def cases(tier):
    out = []
    Q_ = [
        ("rhf", 3, (1, 1), 1, {}), ("rhf", 3, (2, 2), 2, {}), ("rhf", 4, (2, 2), 1, {"ident": 1}),
        ("uhf", 3, (2, 1), 2, {}), ("uhf", 3, (1, 0), 1, {}), ("uhf", 4, (2, 2), 1, {"ident": 1}),
        ("ghf", 2, (1, 1), 2, {}), ("ghf", 3, (2, 1), 1, {"ident": 1}),
        ("noci", 3, (2, 1), 1, {"ndets": 2}), ("noci", 2, (1, 1), 2, {"ndets": 2}),
        ("cisd", 3, (1, 1), 2, {}), ("cisd", 4, (2, 2), 1, {}),
        ("CISD", 3, (1, 1), 2, {}), ("CISD", 4, (2, 2), 1, {}),
        ("CISD_THC", 3, (1, 1), 1, {"nthc": 2}),
        ("ucisd", 3, (2, 1), 2, {"moB_ident": 1}), ("ucisd", 3, (1, 1), 1, {"moB_orth": 1}), ("ucisd", 4, (2, 2), 1, {"moB_ident": 1}),
        ("UCISD", 3, (2, 1), 2, {"moB_ident": 1}), ("UCISD", 3, (1, 1), 1, {"moB_orth": 1}),
        ("GCISD", 2, (1, 1), 2, {}), ("GCISD", 3, (2, 1), 1, {}),
    ]
    T_ = [
        ("rhf", 4, (2, 2), 2, {}), ("uhf", 4, (2, 1), 2, {"ident": 1}), ("uhf", 3, (2, 0), 2, {}), ("ghf", 3, (1, 1), 2, {}),
        ("noci", 3, (2, 1), 2, {"ndets": 3}), ("cisd", 4, (2, 2), 2, {}), ("CISD", 4, (2, 2), 2, {}),
        ("CISD_THC", 4, (2, 2), 1, {"nthc": 2}), ("ucisd", 3, (2, 1), 1, {"moB_orth": 1}), ("UCISD", 3, (2, 1), 1, {"moB_orth": 1}),
        ("ucisd", 4, (2, 1), 1, {"moB_ident": 1}), ("ucisd", 3, (2, 0), 1, {"moB_ident": 1}), ("GCISD", 3, (1, 1), 2, {}),
    ]
    for kind, norb, nelec, nchol, opt in Q_ + (T_ if tier == "thorough" else []):
        K = cm.KINDS[kind]
        base = {"check_id": "C03", "quantity": "force_bias", "kind": kind, "norb": norb, "nelec": list(nelec), "nchol": nchol, "opt": opt}
        if getattr(K, "unrestricted_ok", True):
            out.append(dict(base, entry="u"))
        if K.restricted_ok and nelec[0] >= nelec[1] and not (K.closed_shell and nelec[0] != nelec[1]):
            out.append(dict(base, entry="r"))
    out += wfcase.batch_cases("C03", "force_bias", tier)
    return out


run = wfcase.run
replay = wfcase.replay
