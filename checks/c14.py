"""C14 - walkers evolve independently; batching and the walker storage format change nothing.

(a) n_batch independence and (b) permutation equivariance of _apply_trotprop and of a full propagate() step (transcendental
functions are uninterpreted with congruence, so equal arguments give equal values: A3); the only cross-walker quantity, the
population-control shift, is invariant.  (c) closed shell: rhf trial + propagator_restricted on W  ==  uhf trial +
propagator_unrestricted on [W, W] with the same fields: walkers, weights, overlaps after one step, force bias, energy.
n_batch independence of calc_overlap / calc_force_bias / calc_energy is decided under C01-C03 (batched[k] == single(k))."""
import itertools

import numpy as np

from vf import engine, qdom
from vf.jx import arr, obj
from vf.qdom import Q
from . import common as cm

META = {
    "level": "model_checking",
    "trusted": ["z3 5.1.0", "JAX tracing (A6)", "det/inv stubs (A2)", "exp/log/cos/atan2/abs uninterpreted with congruence and sign contracts (A3)",
                "front-end polynomial normal form"],
    "assumptions": ["A1 reals for floats", "A3 opaque transcendental functions: equality of outputs is proved for every interpretation of exp, cos, ...",
                    "exp_h1 is a symbolic input for the _apply_trotprop obligations; for propagate() the real _build_propagation_intermediates output at a "
                    "fixed small Hamiltonian is used"],
    "bounds": {"quick": "4 walkers, norb 2, (1,1) electrons, 1 Cholesky matrix, n_exp_terms 2-3, n_batch in {1,2,4}, a transposition and a 4-cycle (generators of S4); restricted-vs-unrestricted measurements also at norb 3 with 2 electrons per spin, 2 Cholesky matrices, 2 walkers",
               "thorough": "norb 3, 2 Cholesky matrices, 6 walkers"},
    "outside": "complete driver runs; more walkers; float rounding / XLA fusion differences between batch layouts",
}

PERMS = {"swap01": [1, 0, 2, 3], "cycle": [1, 2, 3, 0]}


class TrotCase(engine.Case):
    """_apply_trotprop: n_batch independence and permutation equivariance (polynomial: no opaque functions)"""
    check_id = "C14"

    def __init__(self, args):
        self.args = args
        self.restricted = bool(args["restricted"])
        self.norb, self.nocc, self.nchol, self.nw = args["norb"], args["nocc"], args["nchol"], args["n_walkers"]
        self.nexp = args.get("n_exp_terms", 3)
        self.name = f"trotprop:{'restricted' if self.restricted else 'unrestricted'}:norb={self.norb}:nocc={self.nocc}:nchol={self.nchol}:nw={self.nw}:nexp={self.nexp}"
        from ad_afqmc import propagation
        self.cls = propagation.propagator_restricted if self.restricted else propagation.propagator_unrestricted

    def functions(self):
        return [f"ad_afqmc.propagation.{self.cls.__name__}._apply_trotprop", "ad_afqmc.propagation.propagator._apply_trotprop_det"]

    def inputs(self, V):
        n = self.norb
        d = {"Wu": arr((self.nw, n, self.nocc), lambda i: V.c(f"wu{i[0]}_{i[1]}{i[2]}")),
             "fields": arr((self.nw, self.nchol), lambda i: V.r(f"x{i[0]}_{i[1]}")),
             "chol": arr((self.nchol, n * n), lambda i: V.r(f"L{i[0]}_{i[1]}"))}
        if self.restricted:
            d["exp_h1"] = cm.real_mat(V, "eh", (n, n))
        else:
            d["Wd"] = arr((self.nw, n, self.nocc), lambda i: V.c(f"wd{i[0]}_{i[1]}{i[2]}"))
            d["exp_h1"] = arr((2, n, n), lambda i: V.r(f"eh{i[0]}_{i[1]}{i[2]}"))
        return d

    def call(self, **kw):
        import jax.numpy as jnp
        hd = {"chol": kw["chol"], "exp_h1": kw["exp_h1"]}
        outs = {}
        W = kw["Wu"] if self.restricted else [kw["Wu"], kw["Wd"]]
        for nb in [d for d in range(1, self.nw + 1) if self.nw % d == 0]:
            prop = self.cls(dt=0.01, n_walkers=self.nw, n_batch=nb, n_exp_terms=self.nexp)
            outs[f"nb{nb}"] = prop._apply_trotprop(hd, W if self.restricted else list(W), kw["fields"])
        prop = self.cls(dt=0.01, n_walkers=self.nw, n_batch=2, n_exp_terms=self.nexp)
        for name, perm in PERMS.items():
            perm = jnp.array(perm[: self.nw]) if self.nw == 4 else jnp.array(list(range(1, self.nw)) + [0])
            Wp = W[perm] if self.restricted else [W[0][perm], W[1][perm]]
            outs["perm_" + name] = (prop._apply_trotprop(hd, Wp, kw["fields"][perm]), perm)
        return outs

    def relations(self, inp, out):
        rels = []
        ref = out["nb1"]
        leaves = (lambda x: [x]) if self.restricted else (lambda x: list(x))
        for key, val in out.items():
            if key.startswith("nb") and key != "nb1":
                for s, (a, b) in enumerate(zip(leaves(val), leaves(ref))):
                    for idx in np.ndindex(a.shape):
                        rels.append((f"{key}:spin{s}{list(idx)}", a[idx], b[idx]))
            if key.startswith("perm_"):
                res, perm = val
                perm = [int(x) for x in perm]
                for s, (a, b) in enumerate(zip(leaves(res), leaves(ref))):
                    for idx in np.ndindex(a.shape):
                        rels.append((f"{key}:spin{s}{list(idx)}", a[idx], b[(perm[idx[0]],) + idx[1:]]))
        return rels


class StepCase(engine.Case):
    """one full propagate() step: n_batch independence, permutation equivariance, restricted == unrestricted"""
    check_id = "C14"
    holo = False
    n_validate = 1

    def __init__(self, args):
        self.args = args
        self.mode = args["mode"]  # batch | perm | ru
        self.restricted = bool(args.get("restricted", False))
        self.norb, self.nocc, self.nchol, self.nw = args.get("norb", 2), args.get("nocc", 1), args.get("nchol", 1), args.get("n_walkers", 4)
        self.name = f"propagate:{self.mode}:{'restricted' if self.restricted else 'unrestricted'}:norb={self.norb}:nchol={self.nchol}:nw={self.nw}"
        if self.nocc != 1:
            self.name += f":nocc={self.nocc}"
        self.timeout_s = 300
        self._setup()

    def functions(self):
        return ["ad_afqmc.propagation.propagator.propagate", "ad_afqmc.propagation.propagator_restricted._apply_trotprop",
                "ad_afqmc.propagation.propagator_unrestricted._apply_trotprop", "ad_afqmc.wavefunctions.wave_function.calc_force_bias",
                "ad_afqmc.wavefunctions.wave_function.calc_overlap"]

    def _setup(self):
        import jax.numpy as jnp
        from ad_afqmc import wavefunctions, propagation
        n = self.norb
        rng = np.random.default_rng(11)
        h1 = np.round(rng.normal(size=(n, n)), 2)
        h1 = h1 + h1.T
        L = np.round(rng.normal(size=(self.nchol, n, n)), 2)
        L = L + L.transpose(0, 2, 1)
        C = np.eye(n)[:, : self.nocc]
        self.h1, self.L, self.C = h1, L, C
        self.rt = wavefunctions.rhf(n, (self.nocc, self.nocc))
        self.ut = wavefunctions.uhf(n, (self.nocc, self.nocc))
        self.rwd = {"mo_coeff": jnp.array(C), "rdm1": jnp.array([C @ C.T, C @ C.T])}
        self.uwd = {"mo_coeff": [jnp.array(C), jnp.array(C)], "rdm1": jnp.array([C @ C.T, C @ C.T])}

    def _ham(self, trial, wd, prop):
        import jax.numpy as jnp
        hd = {"h0": 0.25, "h1": jnp.array([self.h1, self.h1]), "chol": jnp.array(self.L.reshape(self.nchol, -1)), "ene0": 0.0}
        hd = trial._build_measurement_intermediates(hd, wd)
        return prop._build_propagation_intermediates(hd, trial, wd)

    def inputs(self, V):
        n = self.norb
        d = {"W": arr((self.nw, n, self.nocc), lambda i: V.c(f"w{i[0]}_{i[1]}{i[2]}")),
             "fields": arr((self.nw, self.nchol), lambda i: V.r(f"x{i[0]}_{i[1]}")),
             "weights": arr((self.nw,), lambda i: V.r(f"wt{i[0]}")),
             "shift": arr((), lambda i: V.r("Es"))}
        if self.mode not in ("ru", "rumeas") and not self.restricted:
            d["Wd"] = arr((self.nw, n, self.nocc), lambda i: V.c(f"wd{i[0]}_{i[1]}{i[2]}"))
        return d

    def pre(self, inp):
        import z3
        # weights of a valid state are non-negative
        return [qdom.tz(w.c[0]) >= 0 for w in inp["weights"]]

    def _step(self, restricted, nb, W, fields, weights, shift, rhf_on_list=False):
        from ad_afqmc import propagation
        trial, wd = (self.rt, self.rwd) if (restricted or rhf_on_list) else (self.ut, self.uwd)
        trial.n_batch = nb
        cls = propagation.propagator_restricted if restricted else propagation.propagator_unrestricted
        prop = cls(dt=0.01, n_walkers=self.nw, n_batch=nb, n_exp_terms=2)
        hd = self._ham(trial, wd, prop)
        pd = {"walkers": W, "weights": weights, "overlaps": trial.calc_overlap(W, wd), "pop_control_ene_shift": shift, "e_estimate": shift}
        if self.mode != "rumeas":  # rumeas: measurements only (several electrons per spin: exchange terms are not 1x1)
            pd = prop.propagate(trial, hd, pd, fields, wd)
        fb = trial.calc_force_bias(W, hd, wd)
        en = trial.calc_energy(W, hd, wd)
        trial.n_batch = 1
        return pd["walkers"], pd["weights"], pd["overlaps"], pd["pop_control_ene_shift"], fb, en

    def call(self, **kw):
        import jax.numpy as jnp
        W = kw["W"] if (self.restricted or self.mode in ("ru", "rumeas")) else [kw["W"], kw["Wd"]]
        f, w, s = kw["fields"], kw["weights"], kw["shift"]
        if self.mode == "batch":
            return [self._step(self.restricted, nb, W if self.restricted else list(W), f, w, s) for nb in (1, 2, self.nw)]
        if self.mode == "perm":
            outs = [self._step(self.restricted, 2, W if self.restricted else list(W), f, w, s)]
            for name, perm in PERMS.items():
                perm = jnp.array(perm)
                Wp = W[perm] if self.restricted else [W[0][perm], W[1][perm]]
                outs.append(self._step(self.restricted, 2, Wp, f[perm], w[perm], s))
            return outs
        # restricted vs unrestricted on equal spin blocks
        outs = [self._step(True, 1, W, f, w, s), self._step(False, 1, [W, W], f, w, s)]
        if self.mode == "rumeas":  # the SAME rhf trial measured on the unrestricted container (rhf._calc_*(walker_up, walker_dn))
            outs.append(self._step(False, 1, [W, W], f, w, s, rhf_on_list=True))
        return outs

    def relations(self, inp, out):
        rels = []

        def cmp(tag, a, b, perm=None):
            Wa, wa, oa, sa, fa, ea = a
            Wb, wb, ob, sb, fb_, eb = b
            la = [Wa] if isinstance(Wa, np.ndarray) else list(Wa)
            lb = [Wb] if isinstance(Wb, np.ndarray) else list(Wb)
            if len(la) != len(lb):  # restricted vs unrestricted: both unrestricted spin blocks equal the restricted walker
                la = [la[0], la[0]] if len(la) == 1 else la
                lb = [lb[0], lb[0]] if len(lb) == 1 else lb
            P = perm if perm is not None else list(range(self.nw))
            for s_, (x, y) in enumerate(zip(la, lb)):
                for idx in np.ndindex(x.shape):
                    rels.append((f"{tag}:walker{s_}{list(idx)}", x[idx], y[(P[idx[0]],) + idx[1:]]))
            for k in range(self.nw):
                rels.append((f"{tag}:weight[{k}]", wa[k], wb[P[k]]))
                rels.append((f"{tag}:overlap[{k}]", oa[k], ob[P[k]]))
                rels.append((f"{tag}:energy[{k}]", ea[k], eb[P[k]]))
                for g in range(self.nchol):
                    rels.append((f"{tag}:fb[{k},{g}]", fa[k, g], fb_[P[k], g]))
            rels.append((f"{tag}:pop_control_shift", sa[()], sb[()]))
        if self.mode == "batch":
            for j, nb in enumerate((2, self.nw)):
                cmp(f"nb{nb}_vs_nb1", out[j + 1], out[0])
        elif self.mode == "perm":
            for j, (name, perm) in enumerate(PERMS.items()):
                cmp(f"perm_{name}", out[j + 1], out[0], perm)
        else:
            cmp("unrestricted_vs_restricted", out[1], out[0])
            if self.mode == "rumeas":
                cmp("rhf_on_list_vs_restricted", out[2], out[0])
        return rels


def cases(tier):
    out = [{"type": "trot", "restricted": r, "norb": 2, "nocc": 1, "nchol": 2, "n_walkers": 4, "n_exp_terms": 3} for r in (True, False)]
    for mode in ("batch", "perm"):
        for r in (True, False):
            out.append({"type": "step", "mode": mode, "restricted": r, "norb": 2, "nchol": 1, "n_walkers": 4})
    out.append({"type": "step", "mode": "ru", "norb": 2, "nchol": 2, "n_walkers": 2})  # >= 2 Cholesky matrices: constants built from sums over g differ
    # two electrons per spin: the exchange contraction of rhf's two-block energy is no longer 1x1 (seed C14-5: a dropped transpose)
    out.append({"type": "step", "mode": "rumeas", "norb": 3, "nocc": 2, "nchol": 2, "n_walkers": 2})
    if tier == "thorough":
        out += [{"type": "trot", "restricted": r, "norb": 3, "nocc": 2, "nchol": 2, "n_walkers": 4, "n_exp_terms": 4} for r in (True, False)]
        out.append({"type": "step", "mode": "ru", "norb": 2, "nchol": 3, "n_walkers": 3})
    return out


def _mk(args):
    return TrotCase(args) if args["type"] == "trot" else StepCase(args)


def run(args, seed, known):
    return engine.run_case(_mk(args), seed=seed, known=known)


def replay(data):
    return engine.replay_file(_mk(data["case_args"]), data)
