"""Shared builders for the wave-function checks (C01, C02, C03, C11, C13, C14, C15).

Everything is generic in the scalar type: the same builder produces symbolic inputs
(engine.SymV), seeded exact rationals (engine.ConcV) or python complex numbers (replay).
Trial states are written exactly as the class docstrings / property statements define
them, as explicit Fock-space vectors (vf.fock); nothing here uses the formulas under test.
"""
import itertools
from fractions import Fraction

import numpy as np

from vf import fock
from vf.jx import arr, obj
from vf.qdom import Q


def one_like(x):
    return x * 0 + 1 if not isinstance(x, Q) else Q(1)


ONE = Q(1)


def fone(sample):
    """the multiplicative unit in the scalar type of `sample` (Q or python number)"""
    return Q(1) if isinstance(sample, Q) else 1.0


# --- input builders --------------------------------------------------------------------------
def walker(V, name, norb, nocc, complex_=True):
    f = V.c if complex_ else V.r
    return arr((norb, nocc), lambda i: f(f"{name}_{i[0]}{i[1]}"))


def real_mat(V, name, shape):
    return arr(shape, lambda i: V.r(name + "_" + "".join(map(str, i))))


def symm(V, name, n):
    o = obj((n, n))
    for p in range(n):
        for q in range(p, n):
            o[p, q] = o[q, p] = V.r(f"{name}_{p}{q}")
    return o


def cayley(V, name, n):
    """exactly orthogonal n x n matrix (I - A)(I + A)^-1 from a skew matrix A of scalars from V"""
    from vf import qdom

    A = obj((n, n))
    for p in range(n):
        A[p, p] = V.k(0)
        for q in range(p + 1, n):
            A[p, q] = V.r(f"{name}_{p}{q}")
            A[q, p] = -A[p, q]
    M = [[(V.k(1) if i == j else V.k(0)) + A[i, j] for j in range(n)] for i in range(n)]
    d = qdom.det(M)
    if isinstance(d, Q):
        d = d.as_atom("cayley")
    adj = qdom.adj(M)
    out = obj((n, n))
    for i in range(n):
        for j in range(n):
            acc = None
            for k in range(n):
                t = ((V.k(1) if i == k else V.k(0)) - A[i, k]) * adj[k][j]
                acc = t if acc is None else acc + t
            out[i, j] = acc / d
    return out


def cayley_conc(V, n, inst=0):
    """a fixed exactly-orthogonal rational matrix (Cayley transform of seeded rational skew parameters);
    used where a fully symbolic orthogonal matrix is out of reach: the instance is the same in every mode"""
    from vf.engine import ConcV

    M = cayley(ConcV(seed=4242 + inst, den=(2, 3), lo=-3, hi=3), "k", n)
    return arr((n, n), lambda i: V.k(M[i].c[0]))


def ident_cols(V, norb, n, offset=0):
    return arr((norb, n), lambda i: V.k(1 if i[0] == i[1] + offset else 0))


def ham_inputs(V, norb, nchol, spin_dep=False):
    """h0, h1 (2,norb,norb) symmetric per spin, chol (nchol, norb*norb) symmetric"""
    ha = symm(V, "ha", norb)
    hb = symm(V, "hb", norb) if spin_dep else ha
    L = np.stack([symm(V, f"L{g}", norb) for g in range(nchol)]) if nchol else obj((0, norb, norb))
    return {"h0": arr((), lambda i: V.r("h0")), "h1": np.stack([ha, hb]), "chol": L.reshape(nchol, norb * norb)}


def chol3(inp, norb):
    c = inp["chol"]
    return c.reshape(c.shape[0], norb, norb)


# --- trial kinds -------------------------------------------------------------------------------
# Each kind K provides:
#   K.params(V, norb, nelec, opt)      -> dict of trial parameter arrays (scalars from V)
#   K.make(wavefunctions, norb, nelec, opt) -> trial object (real class from /repo)
#   K.wave_data(p)                      -> wave_data dict as the class expects (jnp arrays or object arrays)
#   K.state(p, norb, nelec)             -> Fock-space vector of |psi_T>
#   K.restricted_ok                     -> has a restricted-walker entry point worth checking


def _sym_ci2(V, name, no, nv):
    """c_iajb = c_jbia"""
    o = obj((no, nv, no, nv))
    for i, a, j, b in itertools.product(range(no), range(nv), range(no), range(nv)):
        k = tuple(sorted([(i, a), (j, b)]))
        o[i, a, j, b] = V.r(f"{name}_{k[0][0]}{k[0][1]}{k[1][0]}{k[1][1]}")
    return o


def _asym_ci2(V, name, no, nv):
    """same-spin doubles: c_iajb antisymmetric in (i,j) and in (a,b) (hence c_iajb = c_jbia)"""
    o = obj((no, nv, no, nv))
    for i, a, j, b in itertools.product(range(no), range(nv), range(no), range(nv)):
        if i == j or a == b:
            o[i, a, j, b] = V.k(0)
            continue
        s = 1
        ii, jj = i, j
        aa, bb = a, b
        if ii > jj:
            ii, jj = jj, ii
            s = -s
        if aa > bb:
            aa, bb = bb, aa
            s = -s
        v = V.r(f"{name}_{ii}{aa}{jj}{bb}")
        o[i, a, j, b] = v if s > 0 else -v
    return o


class KRHF:
    name = "rhf"
    restricted_ok = True
    closed_shell = True

    @staticmethod
    def params(V, norb, nelec, opt):
        n = nelec[0]
        if opt.get("orth"):
            return {"C": cayley(V, "k", norb)[:, :n].copy()}
        C = ident_cols(V, norb, n) if opt.get("ident") else real_mat(V, "c", (norb, n))
        return {"C": C}

    @staticmethod
    def make(wf, norb, nelec, opt):
        return wf.rhf(norb, tuple(nelec), n_batch=opt.get("n_batch", 1))

    @staticmethod
    def wave_data(p):
        return {"mo_coeff": p["C"]}

    @staticmethod
    def state(p, norb, nelec):
        return fock.slater(norb, p["C"], p["C"], fone(p["C"][0, 0]))


class KUHF:
    name = "uhf"
    restricted_ok = True
    closed_shell = False

    @staticmethod
    def params(V, norb, nelec, opt):
        if opt.get("orth"):
            return {"Cu": cayley(V, "ku", norb)[:, :nelec[0]].copy(), "Cd": cayley(V, "kd", norb)[:, :nelec[1]].copy()}
        if opt.get("ident"):
            return {"Cu": ident_cols(V, norb, nelec[0]), "Cd": ident_cols(V, norb, nelec[1])}
        return {"Cu": real_mat(V, "cu", (norb, nelec[0])), "Cd": real_mat(V, "cd", (norb, nelec[1]))}

    @staticmethod
    def make(wf, norb, nelec, opt):
        return wf.uhf(norb, tuple(nelec), n_batch=opt.get("n_batch", 1))

    @staticmethod
    def wave_data(p):
        return {"mo_coeff": [p["Cu"], p["Cd"]]}

    @staticmethod
    def state(p, norb, nelec):
        return fock.slater(norb, p["Cu"], p["Cd"], fone(p["Cu"].reshape(-1)[0] if p["Cu"].size else p["Cd"].reshape(-1)[0]))


class KGHF:
    name = "ghf"
    restricted_ok = True
    closed_shell = False

    @staticmethod
    def params(V, norb, nelec, opt):
        ne = nelec[0] + nelec[1]
        if opt.get("orth"):
            return {"C": cayley(V, "k", 2 * norb)[:, :ne].copy()}
        if opt.get("ident"):
            # a spin-mixing but sparse GHF determinant: identity columns plus one symbolic mixing row each
            C = arr((2 * norb, ne), lambda i: V.k(0))
            for k in range(nelec[0]):
                C[k, k] = V.k(1)
                C[norb + (k + 1) % norb, k] = V.r(f"g{k}")
            for k in range(nelec[1]):
                C[norb + k, nelec[0] + k] = V.k(1)
                C[(k + 1) % norb, nelec[0] + k] = V.r(f"g{nelec[0] + k}")
            return {"C": C}
        return {"C": real_mat(V, "c", (2 * norb, ne))}

    @staticmethod
    def make(wf, norb, nelec, opt):
        return wf.ghf(norb, tuple(nelec), n_batch=opt.get("n_batch", 1))

    @staticmethod
    def wave_data(p):
        return {"mo_coeff": p["C"]}

    @staticmethod
    def state(p, norb, nelec):
        return fock.slater_general(2 * norb, p["C"], fone(p["C"][0, 0]))


class KNOCI:
    name = "noci"
    restricted_ok = True
    closed_shell = False

    @staticmethod
    def params(V, norb, nelec, opt):
        nd = opt.get("ndets", 2)
        return {"ci": arr((nd,), lambda i: V.r(f"ci{i[0]}")),
                "Du": arr((nd, norb, nelec[0]), lambda i: V.r(f"du{i[0]}_{i[1]}{i[2]}")),
                "Dd": arr((nd, norb, nelec[1]), lambda i: V.r(f"dd{i[0]}_{i[1]}{i[2]}"))}

    @staticmethod
    def make(wf, norb, nelec, opt):
        return wf.noci(norb, tuple(nelec), opt.get("ndets", 2), n_batch=opt.get("n_batch", 1))

    @staticmethod
    def wave_data(p):
        return {"ci_coeffs_dets": [p["ci"], [p["Du"], p["Dd"]]]}

    @staticmethod
    def state(p, norb, nelec):
        st = {}
        one = fone(p["ci"][0])
        for d in range(p["ci"].shape[0]):
            st = fock.add_states(st, fock.scale(fock.slater(norb, p["Du"][d], p["Dd"][d], one), p["ci"][d]))
        return st


class KCISD:
    """restricted CISD, AD flavour (CISD) and hand-coded flavours (cisd, cisd_faster):
    |psi> = (1 + sum c_ia E_ai + 1/2 sum c_iajb E_ai E_bj)|0>,  |0> = aufbau closed shell, c_iajb = c_jbia"""
    name = "CISD"
    cls = "CISD"
    restricted_ok = True
    unrestricted_ok = False  # these classes define only the restricted-walker formulas
    closed_shell = True

    @classmethod
    def params(cls, V, norb, nelec, opt):
        no, nv = nelec[0], norb - nelec[0]
        return {"ci1": real_mat(V, "s", (no, nv)), "ci2": _sym_ci2(V, "d", no, nv)}

    @classmethod
    def make(cls, wf, norb, nelec, opt):
        return getattr(wf, cls.cls)(norb, tuple(nelec), n_batch=opt.get("n_batch", 1))

    @staticmethod
    def wave_data(p):
        return {"ci1": p["ci1"], "ci2": p["ci2"]}

    @staticmethod
    def state(p, norb, nelec):
        no, nv = p["ci1"].shape
        one = fone(p["ci1"].reshape(-1)[0]) if p["ci1"].size else 1
        ref = fock.det_state(norb, range(no), range(no), one)
        psi = dict(ref)
        for i in range(no):
            for a in range(nv):
                psi = fock.add_states(psi, fock.scale(fock.E(norb, no + a, i, ref), p["ci1"][i, a]))
        for i, a, j, b in itertools.product(range(no), range(nv), range(no), range(nv)):
            t = fock.E(norb, no + a, i, fock.E(norb, no + b, j, ref))
            psi = fock.add_states(psi, fock.scale(t, p["ci2"][i, a, j, b] * Fraction(1, 2)))
        return psi


class Kcisd(KCISD):
    name = "cisd"
    cls = "cisd"


class Kcisd_faster(KCISD):
    name = "cisd_faster"
    cls = "cisd_faster"


class KTHC(KCISD):
    """CISD with doubles in THC format c_iajb = sum_PQ Xo_Pi Xv_Pa V_PQ Xo_Qj Xv_Qb (V symmetric)"""
    name = "CISD_THC"
    cls = "CISD_THC"

    @classmethod
    def params(cls, V, norb, nelec, opt):
        no, nv = nelec[0], norb - nelec[0]
        P = opt.get("nthc", 2)
        return {"ci1": real_mat(V, "s", (no, nv)), "Xocc": real_mat(V, "xo", (P, no)),
                "Xvirt": real_mat(V, "xv", (P, nv)), "VKL": symm(V, "v", P)}

    @staticmethod
    def wave_data(p):
        return {"ci1": p["ci1"], "Xocc": p["Xocc"], "Xvirt": p["Xvirt"], "VKL": p["VKL"]}

    @staticmethod
    def state(p, norb, nelec):
        no, nv = p["ci1"].shape
        P = p["VKL"].shape[0]
        ci2 = obj((no, nv, no, nv))
        for i, a, j, b in itertools.product(range(no), range(nv), range(no), range(nv)):
            acc = None
            for x in range(P):
                for y in range(P):
                    t = p["Xocc"][x, i] * p["Xvirt"][x, a] * p["VKL"][x, y] * p["Xocc"][y, j] * p["Xvirt"][y, b]
                    acc = t if acc is None else acc + t
            ci2[i, a, j, b] = acc
        return KCISD.state({"ci1": p["ci1"], "ci2": ci2}, norb, nelec)


class KUCISD:
    """UCISD (AD flavour UCISD, hand-coded ucisd):
    |psi> = (1 + sum_s c^s_ia a+_as a_is + 1/4 sum_s c^ss_iajb a+_as a+_bs a_js a_is
               + sum c^ab_iajb a+_a(up) a_i(up) a+_b(dn) a_j(dn)) |0>
    same-spin doubles antisymmetric; beta operators act in the basis given by the columns of mo_coeff[1]."""
    name = "UCISD"
    cls = "UCISD"
    restricted_ok = False
    closed_shell = False

    @classmethod
    def params(cls, V, norb, nelec, opt):
        na, nb = nelec
        va, vb = norb - na, norb - nb
        if opt.get("moB_ident"):
            moB = arr((norb, norb), lambda i: V.k(1 if i[0] == i[1] else 0))
        elif opt.get("moB_orth"):
            moB = cayley_conc(V, norb, int(opt["moB_orth"]))
        else:
            moB = real_mat(V, "mb", (norb, norb))
        return {"ci1A": real_mat(V, "sa", (na, va)), "ci1B": real_mat(V, "sb", (nb, vb)),
                "ci2AA": _asym_ci2(V, "daa", na, va), "ci2BB": _asym_ci2(V, "dbb", nb, vb),
                "ci2AB": arr((na, va, nb, vb), lambda i: V.r("dab_" + "".join(map(str, i)))),
                "moA": arr((norb, norb), lambda i: V.k(1 if i[0] == i[1] else 0)), "moB": moB}

    @classmethod
    def make(cls, wf, norb, nelec, opt):
        return getattr(wf, cls.cls)(norb, tuple(nelec), n_batch=opt.get("n_batch", 1))

    @staticmethod
    def wave_data(p):
        return {"ci1A": p["ci1A"], "ci1B": p["ci1B"], "ci2AA": p["ci2AA"], "ci2BB": p["ci2BB"],
                "ci2AB": p["ci2AB"], "mo_coeff": [p["moA"], p["moB"]]}

    @staticmethod
    def state(p, norb, nelec):
        """written in the basis (alpha: original orbitals, beta: columns of moB); the caller must
        express the walker's beta block in that basis: see `walker_in_trial_basis`."""
        na, nb = nelec
        va, vb = norb - na, norb - nb
        smp = [x for x in list(p["ci1A"].reshape(-1)) + list(p["ci1B"].reshape(-1)) + list(p["ci2AB"].reshape(-1))]
        one = fone(smp[0]) if smp else 1
        ref = fock.det_state(norb, range(na), range(nb), one)
        psi = dict(ref)
        for i in range(na):
            for a in range(va):
                psi = fock.add_states(psi, fock.scale(fock.excite(norb, 0, na + a, i, ref), p["ci1A"][i, a]))
        for i in range(nb):
            for a in range(vb):
                psi = fock.add_states(psi, fock.scale(fock.excite(norb, 1, nb + a, i, ref), p["ci1B"][i, a]))
        for (s, no, nv, key) in ((0, na, va, "ci2AA"), (1, nb, vb, "ci2BB")):
            for i, a, j, b in itertools.product(range(no), range(nv), range(no), range(nv)):
                c = p[key][i, a, j, b]
                if fock.iszero(c):
                    continue
                # a+_a a+_b a_j a_i
                t = _ann(norb, s, i, ref)
                t = _ann(norb, s, j, t)
                t = _cre(norb, s, no + b, t)
                t = _cre(norb, s, no + a, t)
                psi = fock.add_states(psi, fock.scale(t, c * Fraction(1, 4)))
        for i, a, j, b in itertools.product(range(na), range(va), range(nb), range(vb)):
            t = fock.excite(norb, 0, na + a, i, fock.excite(norb, 1, nb + b, j, ref))
            psi = fock.add_states(psi, fock.scale(t, p["ci2AB"][i, a, j, b]))
        return psi


class Kucisd(KUCISD):
    name = "ucisd"
    cls = "ucisd"


def _ann(norb, s, p, state):
    out = {}
    for n, a in state.items():
        x = fock.ann(s * norb + p, n)
        if x:
            fock._acc(out, x[1], a * x[0])
    return out


def _cre(norb, s, p, state):
    out = {}
    for n, a in state.items():
        x = fock.cre(s * norb + p, n)
        if x:
            fock._acc(out, x[1], a * x[0])
    return out


class KGCISD:
    """GCISD: |psi> = (1 + sum c_ia a+_a a_i + 1/4 sum c_iajb a+_a a+_b a_j a_i)|0> over the 2*norb general
    spin orbitals given by the columns of mo_coeff (first nocc occupied), c_iajb antisymmetric."""
    name = "GCISD"
    cls = "GCISD"
    restricted_ok = False
    closed_shell = False

    @classmethod
    def params(cls, V, norb, nelec, opt):
        no = nelec[0] + nelec[1]
        nv = 2 * norb - no
        if opt.get("mo_ident", True):
            # a fixed orthogonal spin-orbital basis that puts the aufbau occupied up and down orbitals first
            order = list(range(nelec[0])) + [norb + k for k in range(nelec[1])] + \
                    list(range(nelec[0], norb)) + [norb + k for k in range(nelec[1], norb)]
            mo = arr((2 * norb, 2 * norb), lambda i: V.k(1 if i[0] == order[i[1]] else 0))
        else:
            mo = real_mat(V, "m", (2 * norb, 2 * norb))
        return {"ci1": real_mat(V, "s", (no, nv)), "ci2": _asym_ci2(V, "d", no, nv), "mo": mo}

    @classmethod
    def make(cls, wf, norb, nelec, opt):
        return wf.GCISD(norb, tuple(nelec), n_batch=opt.get("n_batch", 1))

    @staticmethod
    def wave_data(p):
        return {"ci1": p["ci1"], "ci2": p["ci2"], "mo_coeff": p["mo"]}

    @staticmethod
    def state(p, norb, nelec):
        """in the spin-orbital basis of the columns of mo (general index P = 0..2norb-1)"""
        no, nv = p["ci1"].shape
        nso = no + nv
        one = fone(p["ci1"].reshape(-1)[0])
        ref = {(1 << no) - 1: one}
        psi = dict(ref)

        def a_(k, st):
            out = {}
            for n, amp in st.items():
                x = fock.ann(k, n)
                if x:
                    fock._acc(out, x[1], amp * x[0])
            return out

        def c_(k, st):
            out = {}
            for n, amp in st.items():
                x = fock.cre(k, n)
                if x:
                    fock._acc(out, x[1], amp * x[0])
            return out

        for i in range(no):
            for a in range(nv):
                psi = fock.add_states(psi, fock.scale(c_(no + a, a_(i, ref)), p["ci1"][i, a]))
        for i, a, j, b in itertools.product(range(no), range(nv), range(no), range(nv)):
            c = p["ci2"][i, a, j, b]
            if fock.iszero(c):
                continue
            t = c_(no + a, c_(no + b, a_(j, a_(i, ref))))
            psi = fock.add_states(psi, fock.scale(t, c * Fraction(1, 4)))
        return psi


KINDS = {k.name: k for k in (KRHF, KUHF, KGHF, KNOCI, KCISD, Kcisd, Kcisd_faster, KTHC, KUCISD, Kucisd, KGCISD)}


# --- walkers as Fock vectors, in the basis the trial state is written in ------------------------
def matmul(A, B):
    n, k = A.shape
    k2, m = B.shape
    assert k == k2
    out = obj((n, m))
    for i in range(n):
        for j in range(m):
            acc = None
            for l in range(k):
                t = A[i, l] * B[l, j]
                acc = t if acc is None else acc + t
            out[i, j] = acc
    return out


def transpose(A):
    return A.T.copy()


def walker_state(kind, p, norb, nelec, Wu, Wd):
    """Fock vector of the walker |phi> = slater(Wu, Wd), expressed in the orbital basis in which
    kind.state() is written (a change of one-particle basis for UCISD beta / GCISD)."""
    one = fone(Wu.reshape(-1)[0] if Wu.size else Wd.reshape(-1)[0])
    if kind.name in ("UCISD", "ucisd"):
        # beta orbitals: a+_{p,dn}(orig) = sum_q moB[p,q] b+_q  for orthogonal moB;  the class defines the
        # transformed walker as moB^T Wd, i.e. it *defines* the trial through <psi|phi> with phi_dn -> moB^T phi_dn.
        Wd2 = matmul(transpose(p["moB"]), Wd)
        return fock.slater(norb, Wu, Wd2, one)
    if kind.name == "GCISD":
        nso = 2 * norb
        W = obj((nso, Wu.shape[1] + Wd.shape[1]))
        zero = Wu.reshape(-1)[0] * 0 if Wu.size else Wd.reshape(-1)[0] * 0
        for P in range(nso):
            for k in range(W.shape[1]):
                W[P, k] = zero
        for pp in range(norb):
            for k in range(Wu.shape[1]):
                W[pp, k] = Wu[pp, k]
            for k in range(Wd.shape[1]):
                W[norb + pp, Wu.shape[1] + k] = Wd[pp, k]
        W2 = matmul(transpose(p["mo"]), W)
        return fock.slater_general(nso, W2, one)
    return fock.slater(norb, Wu, Wd, one)


def shape_tag(norb, nelec, nchol=None):
    s = f"({norb};{nelec[0]},{nelec[1]}"
    if nchol is not None:
        s += f";{nchol}"
    return s + ")"
