"""C13 - re-orthonormalisation never changes the represented state.

qr_vmap / qr_vmap_uhf and the propagators' orthonormalisation wrappers are traced with jnp.linalg.qr replaced by its
contract (ANY (Q,R) with R upper triangular, QR = A; A2): the harness builds A = Q R from a symbolic Q (no orthonormality
needed) and a symbolic upper-triangular R and hands exactly that pair to the contract.  Obligations (all on the real code):
overlap(A) = overlap(Q_out) * norm factor (per walker, spin blocks not mixed), E_L(A) = E_L(Q_out), force_bias(A) =
force_bias(Q_out).  get_init_walkers: bounded contract-level case in checks/c13init.py ("init-walkers"), beyond it not applicable.

Two further obligations on code the property's clauses run through (same harness classes as C05-L3 / C01-rdm1, reported
under C13 because the clause they decide is C13's):
 * "free-book": inside propagate_free the accumulated norm is multiplied - not replaced - by the factor of each
   re-orthonormalisation: from an ARBITRARY symbolic pre-state norm (inductive over any number of steps) norms' = norms *
   prod diag R_up * prod diag R_dn, overlaps' = overlap(Q) * norms', walkers' = Q.
 * "init-rdm1": the density matrix get_init_walkers takes its natural orbitals from (wave_function.get_rdm1 ->
   _calc_rdm1 when wave_data carries no "rdm1") is the trial's own <psi|a+_ps a_qs|psi>/<psi|psi> for single-determinant
   trials, so its occupied natural-orbital space is the trial's occupied space (the eigen-decomposition itself is N/A)."""
import numpy as np

from vf import engine, qdom
from vf.jx import arr, obj
from vf.qdom import Q
from . import common as cm

META = {
    "level": "model_checking",
    "trusted": ["z3 5.1.0", "JAX tracing (A6)", "qr contract stub (A2): any (Q,R), R upper triangular, QR = A - LAPACK's orthonormality and phase "
                "convention are not verified", "det/inv stubs", "front-end polynomial normal form"],
    "assumptions": ["A1 reals for floats", "A2 linear-algebra contract stubs", "R invertible (full column rank walkers)",
                    "get_init_walkers: eigh/qr contracts (sign gauge enumerated), one electron per spin, restricted output, norb 2; beyond that not applicable"],
    "bounds": {"quick": "2 walkers per batch, norb 3, (1,1),(2,1),(2,2) electrons; rhf/cisd with the restricted propagator, uhf/noci/ghf with the unrestricted one; "
                        "1 Cholesky matrix; Q, R, Hamiltonian and trial parameters symbolic; free-projection bookkeeping uhf (3;2,1) with 2 walkers and a symbolic pre-state norm; "
                        "rdm1 of rhf (3;1,1),(3;2,2) and uhf (3;2,1),(3;2,2),(3;1,0)",
               "thorough": "norb 4, 2 Cholesky matrices, ucisd; bookkeeping with a noci trial; rdm1 rhf (4;2,2)"},
    "outside": "orthonormality of LAPACK's Q; get_init_walkers beyond (2;1,1) restricted; norb > 4",
}


def upper(V, name, n, complex_=True):
    f = V.c if complex_ else V.r
    return arr((n, n), lambda i: f(f"{name}_{i[0]}{i[1]}") if i[0] <= i[1] else V.k(0))


class QRCase(engine.Case):
    check_id = "C13"
    stubs = dict(det=True, inv=True, expm=True, qr=True, eigh=False)

    def __init__(self, args):
        self.args = args
        self.kind = cm.KINDS[args["kind"]]
        self.norb, self.nelec, self.nchol = args["norb"], tuple(args["nelec"]), args.get("nchol", 1)
        self.restricted = bool(args["restricted"])
        self.entry = args.get("entry", "orthonormalize_walkers")
        self.nw = args.get("n_walkers", 2)
        self.opt = args.get("opt", {})
        self.name = f"qr:{self.kind.name}:{'restricted' if self.restricted else 'unrestricted'}:{self.entry}:{cm.shape_tag(self.norb, self.nelec, self.nchol)}:nw={self.nw}"
        self.timeout_s = args.get("timeout", 300)
        from ad_afqmc import wavefunctions, propagation
        self.trial = self.kind.make(wavefunctions, self.norb, self.nelec, self.opt)
        cls = propagation.propagator_restricted if self.restricted else propagation.propagator_unrestricted
        self.prop = cls(n_walkers=self.nw)
        if self.kind.name in ("cisd", "ucisd"):
            self.validate_tol = 5e-5

    def functions(self):
        pr = "propagator_restricted" if self.restricted else "propagator_unrestricted"
        c = type(self.trial).__name__
        return [f"ad_afqmc.propagation.{pr}.{self.entry}", "ad_afqmc.linalg_utils.qr_vmap" + ("" if self.restricted else "_uhf"),
                f"ad_afqmc.wavefunctions.{c}.calc_overlap", f"ad_afqmc.wavefunctions.{c}.calc_energy", f"ad_afqmc.wavefunctions.{c}.calc_force_bias"]

    def inputs(self, V):
        n = self.norb
        d = {"Qu": arr((self.nw, n, self.nelec[0]), lambda i: V.c(f"qu{i[0]}_{i[1]}{i[2]}")),
             "Ru": np.stack([upper(V, f"ru{w}", self.nelec[0]) for w in range(self.nw)])}
        if not self.restricted:
            d["Qd"] = arr((self.nw, n, self.nelec[1]), lambda i: V.c(f"qd{i[0]}_{i[1]}{i[2]}"))
            d["Rd"] = np.stack([upper(V, f"rd{w}", self.nelec[1]) for w in range(self.nw)])
        d.update(cm.ham_inputs(V, n, self.nchol, spin_dep=not self.restricted and self.kind.name in ("uhf", "ghf", "noci")))
        d.update(self.kind.params(V, n, self.nelec, self.opt))
        return d

    def prepare_interp(self, it, inp):
        q = [(inp["Qu"][w], inp["Ru"][w]) for w in range(self.nw)]
        if not self.restricted:
            q += [(inp["Qd"][w], inp["Rd"][w]) for w in range(self.nw)]
        # orthonormalize_walkers entry: the harness calls qr_vmap(_uhf) itself (to read the norm factor) and then the wrapper
        it.qr_queue = q + q if self.entry == "orthonormalize_walkers" else q

    BASE = ("Qu", "Ru", "Qd", "Rd", "h0", "h1", "chol")

    def call(self, **kw):
        import jax.numpy as jnp
        p = {k: v for k, v in kw.items() if k not in self.BASE}
        wd = self.kind.wave_data(p)
        hd = {"h0": kw["h0"], "h1": kw["h1"], "chol": kw["chol"], "ene0": 0.0}
        hd = self.trial._build_measurement_intermediates(hd, wd)
        Au = jnp.einsum("wpk,wkl->wpl", kw["Qu"], kw["Ru"])
        if self.restricted:
            A = Au
        else:
            A = [Au, jnp.einsum("wpk,wkl->wpl", kw["Qd"], kw["Rd"])]
        t = self.trial
        before = (t.calc_overlap(A, wd), t.calc_energy(A, hd, wd), t.calc_force_bias(A, hd, wd))
        pd = {"walkers": A if self.restricted else list(A)}
        if self.entry == "orthonormalize_walkers":
            from ad_afqmc import linalg_utils
            # the wrapper discards the norm factor; the identity needs it, so it is taken from the same routine the wrapper calls
            if self.restricted:
                Wn, nf = linalg_utils.qr_vmap(A)
                pd = self.prop.orthonormalize_walkers({"walkers": A})
            else:
                Wn, nf2 = linalg_utils.qr_vmap_uhf(list(A))
                nf = nf2[0] * nf2[1]
                pd = self.prop.orthonormalize_walkers({"walkers": list(A)})
            Wo = pd["walkers"]
        else:
            pd, norms = self.prop._orthogonalize_walkers({"walkers": list(A)})
            Wo = pd["walkers"]
            nf = norms[0] * norms[1]
        if self.restricted:
            nf = nf * nf if self.kind.closed_shell or True else nf  # restricted walker: both spin determinants pick up prod diag R
        after = (t.calc_overlap(Wo, wd) * nf, t.calc_energy(Wo, hd, wd), t.calc_force_bias(Wo, hd, wd))
        return before, after

    def relations(self, inp, out):
        (o0, e0, f0), (o1, e1, f1) = out
        rels = []
        for w in range(self.nw):
            rels.append((f"overlap[{w}]", o1[w], o0[w]))
            rels.append((f"energy[{w}]", e1[w], e0[w]))
            for g in range(self.nchol):
                rels.append((f"fb[{w},{g}]", f1[w, g], f0[w, g]))
        return rels


def cases(tier):
    out = []
    L = [("rhf", 3, (1, 1), True, {}), ("rhf", 3, (2, 2), True, {}), ("cisd", 3, (1, 1), True, {}),
         ("uhf", 3, (2, 1), False, {}), ("uhf", 3, (1, 1), False, {}), ("noci", 3, (1, 1), False, {"ndets": 2}), ("ghf", 2, (1, 1), False, {})]
    if tier == "thorough":
        L += [("rhf", 4, (2, 2), True, {"ident": 1}), ("uhf", 4, (2, 1), False, {"ident": 1}), ("ucisd", 3, (2, 1), False, {"moB_ident": 1}),
              ("cisd", 4, (2, 2), True, {})]  # noci (3;2,1) exceeds the polynomial budget (measured) and is not run
    for kind, norb, nelec, restricted, opt in L:
        out.append({"kind": kind, "norb": norb, "nelec": list(nelec), "restricted": restricted, "opt": opt, "entry": "orthonormalize_walkers"})
        if not restricted:
            out.append({"kind": kind, "norb": norb, "nelec": list(nelec), "restricted": restricted, "opt": opt, "entry": "_orthogonalize_walkers"})
    out.append({"type": "free-book", "norb": 3, "nelec": [2, 1], "n_walkers": 2})
    O = {"orth": 1}
    for kind, norb, nelec in [("rhf", 3, (1, 1)), ("rhf", 3, (2, 2)), ("uhf", 3, (2, 1)), ("uhf", 3, (2, 2)), ("uhf", 3, (1, 0))]:
        out.append({"type": "init-rdm1", "kind": kind, "norb": norb, "nelec": list(nelec), "opt": O})
    # get_init_walkers (restricted, closed shell, one electron per spin) under eigh/qr contracts: one case per eigenvector sign gauge
    for g in ((1, 1), (1, -1), (-1, 1), (-1, -1)):
        out.append({"type": "init-walkers", "norb": 2, "gauge": list(g)})
    if tier == "thorough":
        out.append({"type": "free-book", "kind": "noci", "norb": 3, "nelec": [1, 1], "n_walkers": 2, "opt": {"ndets": 2}})
        out.append({"type": "init-rdm1", "kind": "rhf", "norb": 4, "nelec": [2, 2], "opt": O})
    return out


def _mk(args):
    t = args.get("type", "qr")
    if t == "free-book":
        from .c05 import Bookkeeping

        class FreeBook(Bookkeeping):
            check_id = "C13"
        c = FreeBook(args)
        c.name = "free-" + c.name
        return c
    if t == "init-rdm1":
        from .c01 import RdmCase

        class InitRdm(RdmCase):
            check_id = "C13"
        c = InitRdm(args)
        c.name = "init-" + c.name
        return c
    return QRCase(args)


def run(args, seed, known):
    if args.get("type") == "init-walkers":
        from . import c13init
        return c13init.run(args, seed, known)
    return engine.run_case(_mk(args), seed=seed, known=known)


def replay(data):
    if data["case_args"].get("type") == "init-walkers":
        return {"violates": True, "summary": data.get("detail", ""), "witness": data.get("witness")}
    return engine.replay_file(_mk(data["case_args"]), data)
