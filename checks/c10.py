"""C10 - CPMC step: fast updates, one-body half step, step structure.

(1) fast update identities (Q domain), uhf_cpmc and ghf_cpmc, EVERY ordered pair of spin-orbitals (same spin i != j, opposite spin
    any i, j), symbolic walker / trial / update constants:  calc_overlap_ratio(G, pair, c) * <psi|phi> = <psi|phi'>  and
    update_greens_function(G, ratio, pair, c) = calc_full_green(phi')  with phi' the walker whose two rows are scaled by 1 + c, and
    calc_green_diagonal = diag(calc_full_green).
(2) one-body half step (graded domain): the exp_h1 the CPMC propagators use (inherited _build_propagation_intermediates) against
    exp(-dt K / 2) of the lattice kinetic matrix K = h1, for ANY chol and rdm1, through dt^1.  (KNOWN FINDING: it contains the
    Cholesky-derived normal-ordering and mean-field one-body shifts.)
(3) Hubbard-Stratonovich constants of init_prop_data: (1/2) sum_sigma B_sigma = exp(-dt U n_up n_dn) on every site occupation, from the
    contracts of exp / acosh only.
"""
import itertools
from fractions import Fraction

import numpy as np
import z3

from vf import engine, engine_g, qdom, gdom
from vf.gdom import G
from vf.jx import arr, obj
from vf.qdom import Q
from . import common as cm

META = {
    "level": "model_checking",
    "trusted": ["z3 5.1.0", "JAX tracing (A6)", "det/inv/expm stubs (A2)", "exp/acosh uninterpreted with the contracts exp(a)exp(-a)=1, cosh(acosh y)=y (A3)"],
    "assumptions": ["A1 reals for floats", "real walkers and trials (as the CPMC propagators use)", "matrices the code inverts are invertible"],
    "bounds": {"quick": "fast updates: uhf_cpmc (3;1,1), (3;2,1) and ghf_cpmc (2;1,1), (3;1,1), all ordered pairs; exp_h1 at norb 2, 1-2 Cholesky matrices; HS constants symbolic dt*U",
               "thorough": "uhf_cpmc (4;2,2 identity-column trial), ghf_cpmc (3;2,1)"},
    "outside": "the per-site sampling structure of propagate() over more than the bounded lattice; constraint-active branches; norb > 4",
}


def pairs(norb):
    out = []
    for si, sj in itertools.product((0, 1), repeat=2):
        for i, j in itertools.product(range(norb), repeat=2):
            if si == sj and i == j:
                continue
            out.append(((si, i), (sj, j)))
    return out


class FastUpdate(engine.Case):
    check_id = "C10"
    holo = False

    def __init__(self, args):
        self.args = args
        self.kindname = args["kind"]
        self.norb, self.nelec = args["norb"], tuple(args["nelec"])
        self.opt = args.get("opt", {})
        self.chunk = args.get("chunk", 0)
        self.nchunks = args.get("nchunks", 1)
        allp = pairs(self.norb)
        self.pairs = allp[self.chunk::self.nchunks]
        self.name = f"fast-update:{self.kindname}:{cm.shape_tag(self.norb, self.nelec)}:pairs {self.chunk + 1}/{self.nchunks} ({len(self.pairs)} of {len(allp)})"
        from ad_afqmc import wavefunctions
        self.trial = getattr(wavefunctions, self.kindname)(self.norb, self.nelec)
        self.timeout_s = 300

    def conc(self, seed):
        return engine.ConcV(seed, lo=1, hi=7, den=(2, 3, 5))

    def functions(self):
        k = self.kindname
        return [f"ad_afqmc.wavefunctions.{k}.calc_overlap_ratio", f"ad_afqmc.wavefunctions.{k}.update_greens_function",
                f"ad_afqmc.wavefunctions.{k}.calc_full_green", f"ad_afqmc.wavefunctions.{k}.calc_green_diagonal"]

    def inputs(self, V):
        n = self.norb
        d = {"Wu": cm.real_mat(V, "wu", (n, self.nelec[0])), "Wd": cm.real_mat(V, "wd", (n, self.nelec[1])),
             "c": arr((2,), lambda i: V.r(f"c{i[0]}"))}
        if self.kindname == "uhf_cpmc":
            if self.opt.get("ident"):
                d["Cu"], d["Cd"] = cm.ident_cols(V, n, self.nelec[0]), cm.ident_cols(V, n, self.nelec[1])
            else:
                d["Cu"], d["Cd"] = cm.real_mat(V, "cu", (n, self.nelec[0])), cm.real_mat(V, "cd", (n, self.nelec[1]))
        else:
            d["C"] = cm.KGHF.params(V, n, self.nelec, {"ident": 1} if self.opt.get("ident", 1) else {})["C"]
        return d

    def call(self, **kw):
        import jax.numpy as jnp
        t = self.trial
        wd = {"mo_coeff": [kw["Cu"], kw["Cd"]]} if self.kindname == "uhf_cpmc" else {"mo_coeff": kw["C"]}
        Wu, Wd, c = kw["Wu"], kw["Wd"], kw["c"]
        G0 = t.calc_full_green(Wu, Wd, wd)
        ov0 = t._calc_overlap(Wu + 0.0j, Wd + 0.0j, wd)
        diag = t.calc_green_diagonal(Wu, Wd, wd)
        outs = []
        for (si, i), (sj, j) in self.pairs:
            idx = jnp.array([[si, i], [sj, j]])
            r = t.calc_overlap_ratio(G0, idx, c)
            G1 = t.update_greens_function(G0, r, idx, c)
            W = [Wu, Wd]
            W[si] = W[si].at[i, :].multiply(1.0 + c[0])
            W[sj] = W[sj].at[j, :].multiply(1.0 + c[1])
            ov1 = t._calc_overlap(W[0] + 0.0j, W[1] + 0.0j, wd)
            G2 = t.calc_full_green(W[0], W[1], wd)
            outs.append((r, G1, ov1, G2))
        return G0, ov0, diag, outs

    def relations(self, inp, out):
        G0, ov0, diag, outs = out
        rels = []
        n = self.norb
        if self.kindname == "uhf_cpmc":
            for s in range(2):
                for p in range(n):
                    rels.append((f"green_diagonal[{s},{p}]", diag[s, p], G0[s, p, p]))
        else:
            for s in range(2):
                for p in range(n):
                    rels.append((f"green_diagonal[{s},{p}]", diag[s, p], G0[s * n + p, s * n + p]))
        for ((si, i), (sj, j)), (r, G1, ov1, G2) in zip(self.pairs, outs):
            tag = f"({si},{i})({sj},{j})"
            rels.append((f"ratio{tag}", r[()] * ov0[()], ov1[()]))
            for idx in np.ndindex(G1.shape):
                rels.append((f"green{tag}{list(idx)}", G1[idx], G2[idx]))
        return rels


class OneBody(engine_g.GCase):
    """exp_h1 used by the CPMC propagators vs exp(-dt K/2), K = h1 (series in dt: here s = dt, order 1)"""
    check_id = "C10"
    order = 2
    claim_orders = (0, 1)
    nf = 0
    validate_s0 = Fraction(1, 64)
    replay_steps = (Fraction(1, 16), Fraction(1, 32), Fraction(1, 64))

    def __init__(self, args):
        self.args = args
        self.norb, self.nchol = args["norb"], args["nchol"]
        self.prop_name = args.get("prop", "propagator_cpmc")
        self.name = f"one-body-half-step:{self.prop_name}:norb={self.norb}:nchol={self.nchol}"
        from ad_afqmc import wavefunctions
        self.trial = wavefunctions.uhf_cpmc(self.norb, (1, 1))

    def functions(self):
        return [f"ad_afqmc.propagation.{self.prop_name}._build_propagation_intermediates (inherited from propagator_unrestricted)",
                f"ad_afqmc.propagation.{self.prop_name}.propagate_one_body"]

    def inputs(self, V):
        n = self.norb
        d = {"dt": arr((), lambda i: V.s(1))}
        d.update(cm.ham_inputs(V, n, self.nchol, spin_dep=True))
        d["rdm1"] = np.stack([cm.symm(V, "ra", n), cm.symm(V, "rb", n)])
        return d

    def call(self, **kw):
        import jax
        from ad_afqmc import propagation
        with jax.disable_jit():
            kwargs = {"neighbors": ((0, 1),)} if "nn" in self.prop_name else {}
            prop = getattr(propagation, self.prop_name)(dt=kw["dt"], n_walkers=1, **kwargs)
            hd = {"h0": kw["h0"], "h1": kw["h1"], "chol": kw["chol"], "ene0": 0.0}
            hd = prop._build_propagation_intermediates(hd, self.trial, {"rdm1": kw["rdm1"]})
            return hd["exp_h1"]

    def relations(self, inp, out):
        n = self.norb
        h1 = np.vectorize(lambda g: g.const() if isinstance(g, G) else g, otypes=[object])(inp["h1"])
        rels = []
        half = Fraction(1, 2)
        for s in range(2):
            for p in range(n):
                for q in range(n):
                    rhs = {(0, ()): Q(1 if p == q else 0), (1, ()): -(h1[s, p, q] * half)}
                    rels.append((f"exp_h1[{s}]", out[s, p, q], rhs))
        return rels

    def residual(self, inp, out, s, vals, rerun=None):
        import scipy.linalg
        h1 = np.array([[[complex(x).real for x in row] for row in m] for m in inp["h1"]])
        res = {}
        for sp in range(2):
            ref = scipy.linalg.expm(-s * h1[sp] / 2.0)
            res[f"exp_h1[{sp}]"] = float(np.abs(np.asarray(out)[sp] - ref).max())
        return res


class HSConstants(engine.Case):
    check_id = "C10"
    n_validate = 1
    holo = False

    def __init__(self, args):
        self.args = args
        self.prop_name = args.get("prop", "propagator_cpmc")
        self.name = f"hs-constants:{self.prop_name}"
        from ad_afqmc import wavefunctions
        self.trial = wavefunctions.uhf_cpmc(2, (1, 1))

    def functions(self):
        return [f"ad_afqmc.propagation.{self.prop_name}.init_prop_data"]

    def conc(self, seed):
        return engine.ConcV(seed, lo=1, hi=4)

    def inputs(self, V):
        return {"u": arr((), lambda i: V.r("U"))}

    def pre(self, inp):
        return [qdom.tz(inp["u"][()].c[0]) > 0] + list(getattr(self, "_facts", []))

    def call(self, **kw):
        import jax.numpy as jnp
        from ad_afqmc import propagation
        kwargs = {"neighbors": ((0, 1),)} if "nn" in self.prop_name else {}
        prop = getattr(propagation, self.prop_name)(dt=0.01, n_walkers=1, **kwargs)
        C = jnp.eye(2)[:, :1]
        wd = {"mo_coeff": [C, C], "rdm1": jnp.array([C @ C.T, C @ C.T])}
        hd = {"h0": 0.0, "h1": jnp.zeros((2, 2, 2)), "chol": jnp.zeros((1, 4)), "ene0": 0.0, "u": kw["u"], "u_1": kw["u"]}
        hd = self.trial._build_measurement_intermediates(hd, wd)
        hd["exp_h1"] = jnp.array([jnp.eye(2), jnp.eye(2)])
        W = [C[None] + 0.0j, C[None] + 0.0j]
        pd = prop.init_prop_data(self.trial, wd, hd, W)
        key = "hs_constant" if "hs_constant" in pd else "hs_constant_onsite"
        return pd[key], jnp.exp(-0.01 * kw["u"])

    def relations(self, inp, out):
        hs, decay = out
        # contracts of the transcendental atoms (A3): exp(g) exp(-g) = 1, (exp(g) + exp(-g))/2 = exp(dt U/2), exp(-dt U/2) exp(dt U/2) = 1,
        # exp(-dt U) = exp(-dt U/2)^2 : added as facts on the atoms found by name and argument
        self._facts = _hs_facts()
        one = Q(1)
        half = Fraction(1, 2)
        rels = []
        # site occupied by up only / down only: (B_0 + B_1)/2 = 1 ; doubly occupied: exp(-dt U) ; branch symmetry
        rels.append(("single_up", (hs[0, 0] + hs[1, 0]) * half, one))
        rels.append(("single_dn", (hs[0, 1] + hs[1, 1]) * half, one))
        rels.append(("double", (hs[0, 0] * hs[0, 1] + hs[1, 0] * hs[1, 1]) * half, decay[()]))
        return rels


def _hs_facts():
    """relations between the opaque exp / acosh atoms that follow from the functions' contracts"""
    facts = []
    items = list(qdom._OPAQUE_ARGS.items())
    exps = [(args[0], val) for (name, _), (val, args) in items if name == "exp"]
    acosh = [(args[0], val) for (name, _), (val, args) in items if name == "acosh"]

    def zv(q):
        return qdom.tz(qdom._real_value(q, "fact"))

    def same(x, y):
        d = qdom.diff_polys(x, y)
        return d is not None and all(qdom.rzero(t) for t in d)
    for a, ea in exps:
        for b, eb in exps:
            if same(a, -b):
                facts.append(zv(ea) * zv(eb) == 1)
            if same(a * 2, b):
                facts.append(zv(eb) == zv(ea) * zv(ea))
        facts.append(zv(ea) > 0)
    for y, g in acosh:
        for a, ea in exps:
            if same(a, g):  # exp(acosh(y))
                for b, eb in exps:
                    if same(b, -g):
                        facts.append(zv(ea) + zv(eb) == 2 * zv(y))
    return facts


def cases(tier):
    out = []
    for kind, norb, nelec, opt, nch in (("uhf_cpmc", 3, (1, 1), {}, 1), ("uhf_cpmc", 3, (2, 1), {"ident": 1}, 2), ("ghf_cpmc", 2, (1, 1), {"ident": 1}, 1),
                                        ("ghf_cpmc", 3, (1, 1), {"ident": 1}, 2)):
        for ch in range(nch):
            out.append({"type": "fast", "kind": kind, "norb": norb, "nelec": list(nelec), "opt": opt, "chunk": ch, "nchunks": nch})
    if tier == "thorough":
        for ch in range(4):
            out.append({"type": "fast", "kind": "uhf_cpmc", "norb": 4, "nelec": [2, 2], "opt": {"ident": 1}, "chunk": ch, "nchunks": 4})
            out.append({"type": "fast", "kind": "uhf_cpmc", "norb": 3, "nelec": [2, 1], "opt": {}, "chunk": ch, "nchunks": 4})
    for prop in ("propagator_cpmc", "propagator_cpmc_nn"):
        out.append({"type": "onebody", "norb": 2, "nchol": 1, "prop": prop})
        out.append({"type": "hs", "prop": prop})
    return out


def run(args, seed, known):
    if args["type"] == "fast":
        return engine.run_case(FastUpdate(args), seed=seed, known=known)
    if args["type"] == "onebody":
        return engine_g.run_gcase(OneBody(args), seed=seed, known=known)
    return engine.run_case(HSConstants(args), seed=seed, known=known)


def replay(data):
    a = data["case_args"]
    if a["type"] == "fast":
        return engine.replay_file(FastUpdate(a), data)
    if a["type"] == "onebody":
        return engine_g.replay_file_g(OneBody(a), data)
    return engine.replay_file(HSConstants(a), data)
