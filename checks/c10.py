"""C10 - CPMC step: fast updates, one-body half step, HS constants, step structure.

(1) fast update identities (Q domain), uhf_cpmc and ghf_cpmc, EVERY ordered pair of spin-orbitals (same spin i != j, opposite spin
    any i, j), symbolic walker / trial / update constants:  calc_overlap_ratio(G, pair, c) * <psi|phi> = <psi|phi'>  and
    update_greens_function(G, ratio, pair, c) = calc_full_green(phi')  with phi' the walker whose two rows are scaled by 1 + c, and
    calc_green_diagonal = diag(calc_full_green).
(2) one-body half step (graded domain): the exp_h1 the CPMC propagators use (inherited _build_propagation_intermediates) against
    exp(-dt K / 2) of the lattice kinetic matrix K = h1, for ANY chol and rdm1, through dt^1.  (KNOWN FINDING: it contains the
    Cholesky-derived normal-ordering and mean-field one-body shifts.)
(3) Hubbard-Stratonovich constants of init_prop_data: (1/2) sum_sigma B_sigma = exp(-dt U n_up n_dn) on every site occupation, from the
    contracts of exp / acosh only.
(4) step structure (Q domain): propagate() of the fast and the slow propagators is executed once per auxiliary-field configuration
    sigma (every outcome of the `rns < prob_0` comparisons is forced in turn by a comparison oracle; the thresholds `< 1e-8`, `> 100`
    are decided "not active" and all decisions are kept as the path condition).  With P(sigma) the product of the probabilities the
    CODE compares its uniform numbers against,
        sum_sigma P(sigma) w'_sigma |phi'_sigma> / <psi_T|phi'_sigma>_cached  =  w exp(dt E_shift) 2^-n sum_sigma |A D_sigma A phi> / <psi_T|phi>
    as Fock-space vectors, for symbolic walker, trial, half-step matrix A, HS constants, weight and shift; D_sigma is the diagonal
    scaling the HS constants define (which (3) relates to exp(-dt U n n)); and fast = slow on every configuration (walkers, weights,
    overlaps, selection probabilities).  On the real code (validation, replay) the configuration is forced through the random
    numbers (gaussian +-40 for the on-site propagators; for the neighbour propagators jax.random inside ad_afqmc.propagation is
    replaced, during the call only, by a stub that hands out the numbers the harness stored in prop_data['key']), and P(sigma) is
    MEASURED by bisection on the uniform number at which the real code changes branch.
"""
import itertools
from fractions import Fraction

import numpy as np
import z3

from vf import engine, engine_g, qdom, gdom
from vf.gdom import G
from vf.jx import arr, obj
from vf.qdom import Q
from . import common as cm

META = {
    "level": "model_checking",
    "trusted": ["z3 5.1.0", "JAX tracing (A6)", "det/inv/expm stubs (A2)", "exp/acosh uninterpreted with the contracts exp(a)exp(-a)=1, cosh(acosh y)=y (A3)",
                "step structure: comparison oracle forcing each field configuration (decisions kept as path conditions), inductive cut points at every field-scan "
                "iteration and after every incremental Green's function update (the replaced state is proved equal to the state it replaces), "
                "erf / PRNG numbers uninterpreted; jax.random inside ad_afqmc.propagation replaced by a harness stub for the neighbour propagators (A3)"],
    "assumptions": ["A1 reals for floats", "real walkers and trials (as the CPMC propagators use)", "matrices the code inverts are invertible"],
    "bounds": {"quick": "fast updates: uhf_cpmc (3;1,1), (3;2,1) and ghf_cpmc (2;1,1), (3;1,1), all ordered pairs; exp_h1 at norb 2, 1-2 Cholesky matrices; HS constants symbolic dt*U; "
                        "step structure: one walker, propagator_cpmc + _slow with uhf_cpmc (2;1,1), (3;2,1) and ghf_cpmc (2;1,1), all 2^n field configurations; "
                        "propagator_cpmc_nn + _nn_slow with uhf_cpmc (2;1,1) and one bond (64 configurations: on-site fields, every Green's function update, "
                        "fast = slow symbolically; the 16-term bond sum identity only on exact rational instances)",
               "thorough": "uhf_cpmc (4;2,2 identity-column trial), ghf_cpmc (3;2,1); step structure as in the quick tier"},
    "outside": "constraint-active branches (any ratio < 1e-8, weight < 1e-8 or > 100); more than one walker per step (walkers do not interact inside propagate: C14); norb > 4; "
               "the unbiasedness SUM over the 16 outcomes of one neighbour bond as a symbolic identity",
}


def pairs(norb):
    out = []
    for si, sj in itertools.product((0, 1), repeat=2):
        for i, j in itertools.product(range(norb), repeat=2):
            if si == sj and i == j:
                continue
            out.append(((si, i), (sj, j)))
    return out


class FastUpdate(engine.Case):
    check_id = "C10"
    holo = False

    def __init__(self, args):
        self.args = args
        self.kindname = args["kind"]
        self.norb, self.nelec = args["norb"], tuple(args["nelec"])
        self.opt = args.get("opt", {})
        self.chunk = args.get("chunk", 0)
        self.nchunks = args.get("nchunks", 1)
        allp = pairs(self.norb)
        self.pairs = allp[self.chunk::self.nchunks]
        self.name = f"fast-update:{self.kindname}:{cm.shape_tag(self.norb, self.nelec)}:pairs {self.chunk + 1}/{self.nchunks} ({len(self.pairs)} of {len(allp)})"
        from ad_afqmc import wavefunctions
        self.trial = getattr(wavefunctions, self.kindname)(self.norb, self.nelec)
        self.timeout_s = 300

    def conc(self, seed):
        return engine.ConcV(seed, lo=1, hi=7, den=(2, 3, 5))

    def functions(self):
        k = self.kindname
        return [f"ad_afqmc.wavefunctions.{k}.calc_overlap_ratio", f"ad_afqmc.wavefunctions.{k}.update_greens_function",
                f"ad_afqmc.wavefunctions.{k}.calc_full_green", f"ad_afqmc.wavefunctions.{k}.calc_green_diagonal"]

    def inputs(self, V):
        n = self.norb
        d = {"Wu": cm.real_mat(V, "wu", (n, self.nelec[0])), "Wd": cm.real_mat(V, "wd", (n, self.nelec[1])),
             "c": arr((2,), lambda i: V.r(f"c{i[0]}"))}
        if self.kindname == "uhf_cpmc":
            if self.opt.get("ident"):
                d["Cu"], d["Cd"] = cm.ident_cols(V, n, self.nelec[0]), cm.ident_cols(V, n, self.nelec[1])
            else:
                d["Cu"], d["Cd"] = cm.real_mat(V, "cu", (n, self.nelec[0])), cm.real_mat(V, "cd", (n, self.nelec[1]))
        else:
            d["C"] = cm.KGHF.params(V, n, self.nelec, {"ident": 1} if self.opt.get("ident", 1) else {})["C"]
        return d

    def call(self, **kw):
        import jax.numpy as jnp
        t = self.trial
        wd = {"mo_coeff": [kw["Cu"], kw["Cd"]]} if self.kindname == "uhf_cpmc" else {"mo_coeff": kw["C"]}
        Wu, Wd, c = kw["Wu"], kw["Wd"], kw["c"]
        G0 = t.calc_full_green(Wu, Wd, wd)
        ov0 = t._calc_overlap(Wu + 0.0j, Wd + 0.0j, wd)
        diag = t.calc_green_diagonal(Wu, Wd, wd)
        outs = []
        for (si, i), (sj, j) in self.pairs:
            idx = jnp.array([[si, i], [sj, j]])
            r = t.calc_overlap_ratio(G0, idx, c)
            G1 = t.update_greens_function(G0, r, idx, c)
            W = [Wu, Wd]
            W[si] = W[si].at[i, :].multiply(1.0 + c[0])
            W[sj] = W[sj].at[j, :].multiply(1.0 + c[1])
            ov1 = t._calc_overlap(W[0] + 0.0j, W[1] + 0.0j, wd)
            G2 = t.calc_full_green(W[0], W[1], wd)
            outs.append((r, G1, ov1, G2))
        return G0, ov0, diag, outs

    def relations(self, inp, out):
        G0, ov0, diag, outs = out
        rels = []
        n = self.norb
        if self.kindname == "uhf_cpmc":
            for s in range(2):
                for p in range(n):
                    rels.append((f"green_diagonal[{s},{p}]", diag[s, p], G0[s, p, p]))
        else:
            for s in range(2):
                for p in range(n):
                    rels.append((f"green_diagonal[{s},{p}]", diag[s, p], G0[s * n + p, s * n + p]))
        for ((si, i), (sj, j)), (r, G1, ov1, G2) in zip(self.pairs, outs):
            tag = f"({si},{i})({sj},{j})"
            rels.append((f"ratio{tag}", r[()] * ov0[()], ov1[()]))
            for idx in np.ndindex(G1.shape):
                rels.append((f"green{tag}{list(idx)}", G1[idx], G2[idx]))
        return rels


class _FakeRandom:
    """environment stub (A3) for `jax.random` as ad_afqmc.propagation sees it while Step.call runs a neighbour propagator: the 'key' IS
    the flat array of uniform numbers stored by the harness; split hands it on unchanged, uniform() returns the slice that belongs to
    the requested shape ((n_walkers, norb) on-site numbers first, then the (n_walkers, 4, n_bonds) neighbour numbers)."""

    def __init__(self, norb, real):
        self.norb, self._real = norb, real

    def split(self, key, num=2):
        return key, key

    def uniform(self, key, shape=(), **kw):
        n = int(np.prod(shape))
        off = 0 if len(shape) == 2 else self.norb
        return key[off:off + n].reshape(shape)

    def __getattr__(self, k):
        return getattr(self._real, k)


class StepConc(engine.ConcV):
    """seeded exact rationals in ranges where no constraint is active (positive walkers / trial / constants, half-step matrix near 1)"""

    def r(self, name):
        if name not in self.values and not self.fixed:
            rr = self.rng
            if name.startswith("a"):
                d = name.split("_")[1]
                v = Fraction(rr.randint(7, 10), 10) if d[-1] == d[-2] else Fraction(rr.randint(1, 3), 10)
            elif name == "w":
                v = Fraction(rr.randint(2, 5), 8)
            elif name in ("Es", "Ee"):
                v = Fraction(rr.randint(-3, 3), 2)
            elif name.startswith("hs"):
                v = Fraction(rr.randint(6, 14), 10)
            else:
                v = Fraction(rr.randint(2, 6), rr.choice((3, 4, 5)))
            self.values[name] = v
        return super().r(name)


class Step(engine.Case):
    """see (4) in the module docstring.  Symbolic stage = inductive decomposition: at every iteration of the field scans (and after the
    last one) the carried state is REPLACED by an arbitrary valid state (fresh symbolic walker and weight; Green's function and cached
    overlap recomputed from scratch by the code's own calc_full_green / calc_overlap), and the obligations of each segment are
      first  : walkers = A phi, greens / overlap coherent with them, w1/ov1 = w/ov0
      field  : walkers' = D^s walkers, greens' = calc_full_green(walkers'), overlap' = calc_overlap(walkers'), and
               sum_s P_s w'_s |W'_s>/ov'_s = (w/ov) (1/2^k) sum_s |D^s W>   (k = 1 on-site, 4 fields of one bond)
      last   : walkers = A W, overlap / greens coherent, w'/ov' = w exp(dt E_shift)/ov
    which compose (linearity, induction over the segments) to the whole-step identity for every configuration.  The concrete
    pre-screen and the float replay evaluate the WHOLE step without cuts (all 2^n configurations of the real propagate())."""
    check_id = "C10"
    holo = False
    n_validate = 1
    tol = 1e-6
    validate_tol = 1e-7
    n_prescreen = int(__import__("os").environ.get("VERIF_STEP_PRESCREEN", "2"))  # 0: debugging the symbolic stage on its own

    def __init__(self, args):
        self.args = args
        self.family = args.get("family", "onsite")  # onsite: propagator_cpmc(+_slow); nn: propagator_cpmc_nn(+_slow)
        self.kindname = args.get("kind", "uhf_cpmc")
        self.norb, self.nelec = args["norb"], tuple(args["nelec"])
        self.neighbors = tuple(tuple(b) for b in args.get("neighbors", ())) if self.family == "nn" else ()
        self.opt = args.get("opt", {})
        n, nb = self.norb, len(self.neighbors)
        self.nf = n + 4 * nb
        self.nseg = n + nb + 1  # cut points: every scan iteration and the state after the last one
        self.nscans = 2 if self.family == "nn" else 1
        self.configs = list(itertools.product((0, 1), repeat=self.nf))
        if self.family == "onsite":
            sel = [(0,) * self.nf, (1,) * self.nf]
        else:
            sel = [(cb[0],) * n + cb * nb for cb in itertools.product((0, 1), repeat=4)]
        self.sel = [self.configs.index(c) for c in sel]
        self.name = (f"step:{self.family}:{self.kindname}:{cm.shape_tag(self.norb, self.nelec)}" + (f":bonds={list(self.neighbors)}" if self.neighbors else "")
                     + ("".join(f":{k}" for k in sorted(self.opt)) if self.opt else ""))
        self.timeout_s = 300
        from ad_afqmc import wavefunctions, propagation
        self.trial = getattr(wavefunctions, self.kindname)(self.norb, self.nelec)
        if self.family == "onsite":
            self.props = [propagation.propagator_cpmc(dt=0.01, n_walkers=1), propagation.propagator_cpmc_slow(dt=0.01, n_walkers=1)]
        else:
            self.props = [propagation.propagator_cpmc_nn(dt=0.01, n_walkers=1, neighbors=self.neighbors),
                          propagation.propagator_cpmc_nn_slow(dt=0.01, n_walkers=1, neighbors=self.neighbors)]
        self.impls = ("fast", "slow")
        self._log, self._mask_k, self._rec, self._aux, self._labels_seen = [], 0, {}, None, []
        self.stage = "validate"

    def functions(self):
        names = [type(p).__name__ for p in self.props]
        k = self.kindname
        return [f"ad_afqmc.propagation.{n}.propagate" for n in names] + ["ad_afqmc.propagation.propagator_cpmc.propagate_one_body",
                f"ad_afqmc.wavefunctions.{k}.calc_overlap_ratio", f"ad_afqmc.wavefunctions.{k}.update_greens_function",
                f"ad_afqmc.wavefunctions.{k}.calc_full_green", f"ad_afqmc.wavefunctions.{k}._calc_overlap"]

    def conc(self, seed):
        """seeded concrete instances INSIDE the claim: draws on which some constraint would be active (by the thresholds' definition, with a
        margin) are skipped - on those the real code divides 0/0 and the whole-step identity is not claimed"""
        import math
        for k in range(40):
            V = StepConc(seed + 7919 * k)
            inp = {kk: np.vectorize(lambda z: complex(z).real, otypes=[object])(engine.to_py(v)) for kk, v in self.inputs(V).items()}
            try:
                ok = self._inactive(inp, math.exp(self.props[0].dt * float(inp["Es"][()])))
            except Exception:
                ok = False
            if ok:
                return StepConc(seed + 7919 * k)
        return StepConc(seed)

    def _trial_inputs(self, V):
        n = self.norb
        if self.kindname == "uhf_cpmc":
            if self.opt.get("ident"):
                return {"Cu": cm.ident_cols(V, n, self.nelec[0]), "Cd": cm.ident_cols(V, n, self.nelec[1])}
            if self.opt.get("ctrial"):
                # a fixed generic (non-uniform density) trial in exact rationals: the claim is then "for this trial, every walker / constant"
                import random
                rr = random.Random(77 + int(self.opt["ctrial"]))
                mk = lambda sh: arr(sh, lambda i: V.k(Fraction(rr.randint(1, 5), rr.choice((2, 3)))))
                return {"Cu": mk((n, self.nelec[0])), "Cd": mk((n, self.nelec[1]))}
            return {"Cu": cm.real_mat(V, "cu", (n, self.nelec[0])), "Cd": cm.real_mat(V, "cd", (n, self.nelec[1]))}
        return {"C": cm.KGHF.params(V, n, self.nelec, {"ident": 1} if self.opt.get("ident", 1) else {})["C"]}

    def inputs(self, V):
        n = self.norb
        d = {"Wu": cm.real_mat(V, "wu", (n, self.nelec[0])), "Wd": cm.real_mat(V, "wd", (n, self.nelec[1])),
             "A": arr((2, n, n), lambda i: V.r(f"a{i[0]}_{i[1]}{i[2]}")),
             "hs": arr((2, 2), lambda i: V.r(f"hs_{i[0]}{i[1]}")), "w": arr((), lambda i: V.r("w")),
             "Es": arr((), lambda i: V.r("Es")), "Ee": arr((), lambda i: V.r("Ee"))}
        if self.family == "nn":
            if self.opt.get("chs"):
                # neighbour HS constants as an exact rational instance of const * [[e^g, e^-g], [e^-g, e^g]] (the claim is then per instance)
                k_, g_ = [(Fraction(9, 10), Fraction(3, 2)), (Fraction(4, 5), Fraction(5, 3))][int(self.opt["chs"]) - 1]
                tab = [[k_ * g_, k_ / g_], [k_ / g_, k_ * g_]]
                d["hsn"] = arr((2, 2), lambda i: V.k(tab[i[0]][i[1]]))
            else:
                d["hsn"] = arr((2, 2), lambda i: V.r(f"hsn_{i[0]}{i[1]}"))
        d.update(self._trial_inputs(V))
        # the arbitrary valid states of the cut points (used by the symbolic stage only)
        d["Su"] = arr((self.nseg, n, self.nelec[0]), lambda i: V.r(f"su{i[0]}_{i[1]}{i[2]}"))
        d["Sd"] = arr((self.nseg, n, self.nelec[1]), lambda i: V.r(f"sd{i[0]}_{i[1]}{i[2]}"))
        d["Sw"] = arr((self.nseg,), lambda i: V.r(f"sw{i[0]}"))
        return d

    # ---- running the real propagators on one forced configuration -----------------------------------------------------------
    def _wave_data(self, kw):
        return {"mo_coeff": [kw["Cu"], kw["Cd"]]} if self.kindname == "uhf_cpmc" else {"mo_coeff": kw["C"]}

    def _rn(self, u):
        """the random-number argument that makes the real code see the uniform numbers u (0.0 / 1.0 exactly, or floats)"""
        import jax.numpy as jnp
        u = np.asarray(u, dtype=float)
        if self.family == "onsite":
            from scipy.special import ndtri
            g = np.where(u <= 0.0, -40.0, np.where(u >= 1.0, 40.0, ndtri(np.clip(u, 1e-300, 1.0))))
            return jnp.asarray(g)[None, :]
        n, nb = self.norb, len(self.neighbors)
        flat = np.concatenate([u[:n], u[n:].reshape(nb, 4).T.reshape(-1)])  # (4, nb) layout of uniform_rns_1[0]
        return jnp.asarray(flat)

    def _step(self, kw, prop, rn):
        import jax.numpy as jnp
        t = self.trial
        wd = self._wave_data(kw)
        W = [kw["Wu"][None], kw["Wd"][None]]
        pd = {"walkers": W, "weights": kw["w"][None], "overlaps": t.calc_overlap(W, wd).real, "greens": t.calc_full_green_vmap(W, wd),
              "pop_control_ene_shift": kw["Es"], "e_estimate": kw["Ee"]}
        hd = {"exp_h1": kw["A"]}
        if self.family == "onsite":
            pd["hs_constant"] = kw["hs"]
            pd["key"] = jnp.zeros((2,), dtype=jnp.uint32)
            g = rn
        else:
            pd["hs_constant_onsite"], pd["hs_constant_nn"] = kw["hs"], kw["hsn"]
            pd["key"] = rn
            g = jnp.zeros((1, self.norb))
        pd = prop.propagate(t, hd, pd, g, wd)
        return pd["walkers"][0][0], pd["walkers"][1][0], pd["weights"][0], pd["overlaps"][0], pd["greens"][0]

    def _patched(self):
        import contextlib
        from ad_afqmc import propagation

        @contextlib.contextmanager
        def cm_():
            if self.family != "nn":
                yield
                return
            real = propagation.random
            propagation.random = _FakeRandom(self.norb, real)
            try:
                yield
            finally:
                propagation.random = real
        return cm_()

    def call(self, **kw):
        import jax.numpy as jnp
        outs = []
        with self._patched():
            for cfg in self.configs:
                rn = self._rn(cfg)
                for prop in self.props:
                    outs.append(self._step(kw, prop, rn))
        return outs, jnp.exp(self.props[0].dt * kw["Es"])

    # ---- interpretation: forced branch decisions and inductive cut points ----------------------------------------------------
    def _aux_eval(self, inp, Wu, Wd):
        """the code's own from-scratch Green's function and overlap of a walker (interpreted)"""
        import jax
        import jax.numpy as jnp
        from vf import jx, stubs
        tn = [k for k in ("Cu", "Cd", "C") if k in inp]
        if self._aux is None:
            t = self.trial

            def f(Wu_, Wd_, *C):
                wd = self._wave_data(dict(zip(tn, C)))
                W = [Wu_[None], Wd_[None]]
                return t.calc_full_green_vmap(W, wd), t.calc_overlap(W, wd).real
            ex = [jnp.zeros(np.asarray(x).shape) for x in (Wu, Wd)] + [jnp.zeros(np.asarray(inp[k]).shape) for k in tn]
            with stubs.installed(**self.stubs):
                self._aux = jax.make_jaxpr(f)(*ex)
        it = jx.Interp()
        G_, ov = it.run(self._aux, [Wu, Wd] + [inp[k] for k in tn])
        return G_, ov

    def _slots(self, e, dims):
        nc, ncar = dims
        avals = [v.aval for v in e.invars[nc:nc + ncar]]
        n = self.norb
        wu = [k for k, a in enumerate(avals) if tuple(a.shape) == (1, n, self.nelec[0]) and np.issubdtype(a.dtype, np.floating)]
        wdn = [k for k, a in enumerate(avals) if tuple(a.shape) == (1, n, self.nelec[1]) and np.issubdtype(a.dtype, np.floating)]
        if not wu or not wdn:
            return None
        gshape = (1, 2, n, n) if self.kindname == "uhf_cpmc" else (1, 2 * n, 2 * n)
        g = [k for k, a in enumerate(avals) if tuple(a.shape) == gshape]
        one = [k for k, a in enumerate(avals) if tuple(a.shape) == (1,) and np.issubdtype(a.dtype, np.floating)]
        both = sorted(set(wu) | set(wdn))
        assert len(both) == 2 and len(g) <= 1 and len(one) == 2, ("carry layout of the field scan not recognised", [(tuple(a.shape), str(a.dtype)) for a in avals])
        return {"Wu": both[0], "Wd": both[1], "G": g[0] if g else None, "ov": one[0], "w": one[1]}  # dict keys are flattened in sorted order: overlaps < walkers < weights

    def prepare_interp(self, it, inp):
        self._log, self._mask_k, self._rec, self._active = [], 0, {}, False
        ni, nf = len(self.props), self.nf

        def oracle(op, x, y):
            thr = y.isconst() and float(y.c[0]) in (1.0e-8, 100.0)
            # "no constraint is active" means  x >= 1e-8  resp.  x <= 100, however the guard is written
            inactive = ({"lt": False, "le": False, "ge": True, "gt": True} if thr and float(y.c[0]) == 1.0e-8 else
                        {"gt": False, "ge": False, "le": True, "lt": True}).get(op)
            if x.isconst() and y.isconst():
                d = bool(qdom.compare(op, x, y))
            elif thr:
                if inactive is None:
                    return None
                d = inactive  # kept as a path condition
            else:
                k = self._mask_k
                d = self.configs[k // (ni * nf)][k % nf] == 0
            if not thr:
                self._mask_k += 1
            self._log.append(("thr" if thr else "mask", op, x, y, d))
            if thr and inactive is not None and d != inactive:
                self._active = True  # a concrete instance on which a constraint is active
            return d
        it.cmp_oracle = oracle
        if self.stage != "symbolic":
            return
        st = {"scan_no": -1}
        n = self.norb
        conc = {}

        def fresh(seg, selected):
            if selected:
                Wu, Wd, w = inp["Su"][seg], inp["Sd"][seg], inp["Sw"][seg]
            else:  # a run that is not needed for any obligation: a fixed concrete valid state keeps it cheap
                if seg not in conc:
                    V = StepConc(4242 + seg)
                    conc[seg] = (cm.real_mat(V, "wu", (n, self.nelec[0])), cm.real_mat(V, "wd", (n, self.nelec[1])), V.r("w"))
                Wu, Wd, w = conc[seg]
            G_, ov = self._aux_eval(inp, Wu, Wd)
            return {"Wu": Wu, "Wd": Wd, "G": G_[0], "ov": ov[0], "w": w}

        def state_of(carry, sl):
            return {"Wu": carry[sl["Wu"]][0], "Wd": carry[sl["Wd"]][0], "G": carry[sl["G"]][0] if sl["G"] is not None else None,
                    "ov": carry[sl["ov"]][0], "w": carry[sl["w"]][0]}

        def put(carry, sl, s_):
            carry = list(carry)
            for k in ("Wu", "Wd", "G"):
                if sl[k] is not None:
                    carry[sl[k]] = np.asarray(s_[k], dtype=object)[None]
            for k in ("ov", "w"):
                o = obj((1,))
                o[0] = s_[k]
                carry[sl[k]] = o
            return carry

        def hook(e, when, t, carry, dims):
            sl = self._slots(e, dims)
            if sl is None:
                return None
            L = e.params["length"]
            if when == "before" and t == 0:
                st["scan_no"] += 1
            run, which = divmod(st["scan_no"], self.nscans)
            c, m = divmod(run, ni)
            selected = c in self.sel
            seg = t if which == 0 else n + t
            rec = self._rec.setdefault((c, m), {})
            if when == "before":
                if which == 0 and t == 0:
                    rec["pre"] = state_of(carry, sl)
                s_ = fresh(seg, selected)
                rec[("in", seg)] = s_
                st["cur"] = (c, m, seg, which, t, s_, selected)
                st["j"] = 0
                return put(carry, sl, s_)
            rec[("out", seg)] = state_of(carry, sl)
            if which == self.nscans - 1 and t == L - 1:
                s_ = fresh(self.nseg - 1, selected)
                rec[("in", self.nseg - 1)] = s_
                return put(carry, sl, s_)
            return None
        it.scan_hook = hook

        def greens_hook(e, ins, outs):
            """after every incremental update the Green's function is replaced by the from-scratch one of the walker reached so far
            (the equality of the two is the obligation `greens-update`), so that the next field starts from an un-nested state"""
            if "cur" not in st or outs[0] is None:
                return None
            c, m, seg, which, t, s_, selected = st["cur"]
            j = st["j"]
            st["j"] += 1
            cfg = self.configs[c]
            lo = t if which == 0 else n + 4 * t
            part = tuple(cfg[x] if lo <= x <= lo + j else None for x in range(nf))
            du, dd = self._scalings(inp, part, Q(1))
            Wu, Wd = self._rows(du, s_["Wu"]), self._rows(dd, s_["Wd"])
            G_, _ = self._aux_eval(inp, Wu, Wd)
            if selected:
                self._rec[(c, m)].setdefault("updates", []).append((seg, j, outs[0], G_))
            return [G_]
        it.call_hooks["update_greens_function_vmap"] = greens_hook

    def pre(self, inp):
        out = []
        for kind, op, x, y, d in self._log:
            if x.isconst() and y.isconst():
                continue
            if kind == "mask" and not x.isconst():
                # the uniform number is an uninterpreted value (erf of the gaussian): the obligations are then shown WITHOUT assuming that
                # it falls on the forced side of the probability, which is more than is needed
                continue
            c = qdom.compare(op, x, y)
            e = c.e if hasattr(c, "e") else z3.BoolVal(bool(c))
            out.append(e if d else z3.Not(e))
        return out

    # ---- the oracle ------------------------------------------------------------------------------------------------------------------
    def _scalings(self, inp, cfg, one):
        """diagonal scalings (up, down) of the fields in cfg (None = field not applied), as the HS constants define them"""
        n = self.norb
        du, dd = [one] * n, [one] * n
        hs = inp["hs"]
        for x in range(n):
            f = cfg[x]
            if f is None:
                continue
            du[x] = du[x] * hs[f, 0]
            dd[x] = dd[x] * hs[f, 1]
        for b, (i, j) in enumerate(self.neighbors):
            hn = inp["hsn"]
            tgt = ((du, i, du, j), (du, i, dd, j), (dd, i, du, j), (dd, i, dd, j))  # up-up, up-dn, dn-up, dn-dn
            for k, (v1, p1, v2, p2) in enumerate(tgt):
                f = cfg[n + 4 * b + k]
                if f is None:
                    continue
                v1[p1] = v1[p1] * hn[f, 0]
                v2[p2] = v2[p2] * hn[f, 1]
        return du, dd

    @staticmethod
    def _rows(d, W):
        o = obj(W.shape)
        for p_ in range(W.shape[0]):
            for k in range(W.shape[1]):
                o[p_, k] = d[p_] * W[p_, k]
        return o

    def _trial_state(self, inp, one):
        from vf import fock
        if self.kindname == "uhf_cpmc":
            return fock.slater(self.norb, inp["Cu"], inp["Cd"], one)
        return fock.slater_general(2 * self.norb, inp["C"], one)

    def relations(self, inp, out):
        outs, expE = out
        sample = outs[0][2]
        sample = sample[()] if isinstance(sample, np.ndarray) else sample
        if isinstance(sample, Q) and self.stage == "symbolic":
            rels = self._rel_cut(inp, out)
        else:
            rels = self._rel_whole(inp, out, isinstance(sample, Q))
        if isinstance(sample, Q):
            self._labels_seen = [r[0] for r in rels]
        return rels

    def _masks_by_run(self):
        masks = [t for t in self._log if t[0] == "mask"]
        ni, nf = len(self.props), self.nf
        assert len(masks) == len(self.configs) * ni * nf, ("number of branch decisions", len(masks), len(self.configs), ni, nf)
        return {(c, m): masks[(c * ni + m) * nf:(c * ni + m + 1) * nf] for c in range(len(self.configs)) for m in range(ni)}

    def _rel_whole(self, inp, out, exact):
        """the whole step, all configurations: exact rationals (pre-screen; P from the code's own comparisons) or floats (replay; P measured)"""
        from vf import fock
        outs, expE = out
        n, nf, ni = self.norb, self.nf, len(self.props)
        expE = expE[()] if isinstance(expE, np.ndarray) else expE
        one = Q(1) if exact else 1.0
        if exact:
            if self._active:
                return []  # a concrete instance on which a constraint is active: outside the claim
            mk = self._masks_by_run()
            prob = {}
            for (c, m), ms in mk.items():
                cfg = self.configs[c]
                P_ = one
                for f in range(nf):
                    assert ms[f][4] == (cfg[f] == 0), "a concrete instance did not follow the forced configuration"
                    P_ = P_ * (ms[f][3] if cfg[f] == 0 else (one - ms[f][3]))
                prob[(c, m)] = P_
        else:
            real_ = np.vectorize(lambda z: complex(z).real, otypes=[object])
            inp = {k: real_(v) for k, v in inp.items()}
            expE = complex(expE).real
            if not self._inactive(inp, expE):
                return []
            prob = self._measure(inp)
            outs = [tuple(real_(np.asarray(o, dtype=object)) for o in tup) for tup in outs]
        A, Wu, Wd = inp["A"], inp["Wu"], inp["Wd"]
        AWu, AWd = cm.matmul(A[0], Wu), cm.matmul(A[1], Wd)
        psi = self._trial_state(inp, one)
        ov0 = fock.inner(psi, fock.slater(n, Wu, Wd, one), zero=one * 0)
        acc = {}
        for cfg in self.configs:
            du, dd = self._scalings(inp, cfg, one)
            acc = fock.add_states(acc, fock.slater(n, cm.matmul(A[0], self._rows(du, AWu)), cm.matmul(A[1], self._rows(dd, AWd)), one))
        wE = inp["w"][()] * expE * (Fraction(1, 2 ** nf) if exact else 1.0 / 2 ** nf)
        rels = []
        for m, impl in enumerate(self.impls):
            lhs = {}
            for c, cfg in enumerate(self.configs):
                Wu1, Wd1, w1, ov1 = outs[c * ni + m][:4]
                coef = prob[(c, m)] * w1[()] / ov1[()]
                lhs = fock.add_states(lhs, fock.scale(fock.slater(n, Wu1, Wd1, one), coef))
            for key in sorted(set(lhs) | set(acc)):
                rels.append((f"{impl}:unbiased[{key:0{2 * n}b}]", lhs.get(key, one * 0) * ov0, acc.get(key, one * 0) * wE))
        for c, cfg in enumerate(self.configs):
            tag = "".join(map(str, cfg))
            f_, s_ = outs[c * ni + 0], outs[c * ni + 1]
            for nm, a, b in (("walker_up", f_[0], s_[0]), ("walker_dn", f_[1], s_[1]), ("weight", f_[2], s_[2]), ("overlap", f_[3], s_[3])):
                a, b = np.asarray(a, dtype=object), np.asarray(b, dtype=object)
                for idx in np.ndindex(a.shape):
                    rels.append((f"fast=slow:{nm}{list(idx) if idx else ''}@{tag}", a[idx], b[idx]))
            rels.append((f"fast=slow:probability@{tag}", prob[(c, 0)], prob[(c, 1)]))
        if not exact and self._labels_seen:
            # a violation found on a segment of the symbolic stage is replayed as the whole-step identity: report the worst
            # whole-step relation under the segment's label
            def dev(t):
                a, b = complex(t[1]), complex(t[2])
                return abs(a - b) / max(abs(a), abs(b), 1.0)
            worst = max(rels, key=dev)
            have = {r[0] for r in rels}
            rels = rels + [(lab, worst[1], worst[2]) for lab in self._labels_seen if lab not in have]
        return rels

    def _rel_cut(self, inp, out):
        from vf import fock
        outs, expE = out
        expE = expE[()] if isinstance(expE, np.ndarray) else expE
        n, nf, ni, nb = self.norb, self.nf, len(self.props), len(self.neighbors)
        one = Q(1)
        zero = one * 0
        mk = self._masks_by_run()
        psi = self._trial_state(inp, one)
        A = inp["A"]
        rels = []

        def fv(Wu, Wd):
            return fock.slater(n, Wu, Wd, one)

        def sem_ov(Wu, Wd):
            return fock.inner(psi, fv(Wu, Wd), zero=zero)

        def eq_arr(label, a, b):
            a, b = np.asarray(a, dtype=object), np.asarray(b, dtype=object)
            assert a.shape == b.shape, (label, a.shape, b.shape)
            for idx in np.ndindex(a.shape):
                rels.append((f"{label}{list(idx) if idx else ''}", a[idx], b[idx]))

        def coherent(label, st_, fast, Wu, Wd):
            """the state st_ the code produced is the valid state of the walker (Wu, Wd)"""
            eq_arr(f"{label}:walker_up", st_["Wu"], Wu)
            eq_arr(f"{label}:walker_dn", st_["Wd"], Wd)
            G_, ov = self._aux_eval(inp, Wu, Wd)
            rels.append((f"{label}:overlap=calc_overlap(walker)", st_["ov"], ov[0]))
            rels.append((f"{label}:overlap=<psi|phi>", st_["ov"], sem_ov(Wu, Wd)))
            if fast:
                eq_arr(f"{label}:greens=calc_full_green(walker)", st_["G"], G_[0])

        def fock_sum(label, entry, terms, fields):
            """sum_s P_s w'_s |W'_s>/ov'_s  =  (w/ov) 2^-k sum_s |D^s W>"""
            if len(terms) > 2 and self.opt.get("no_bond_sum", 1):
                # neighbour bonds: the statement asks fast = slow for the neighbour propagators (compared segment by segment below);
                # the 16-term coefficient identities exceed the polynomial budget and are only evaluated on exact rational
                # instances by the concrete pre-screen of the whole step
                return
            if len(terms) > 2:
                # the four fields of one bond: 16 rational terms with 16 different denominators do not fit the polynomial budget as ONE
                # sum; since the walkers of the 16 outcomes are already proved to be D^s W, the sum identity follows from the
                # term-by-term identity  P_s w'_s / ov'_s = (w/ov) / 16  (sufficient; a failure is replayed as the whole-step SUM
                # identity on the real code, so an implementation that is unbiased only in the sum would not be reported)
                for P_, ex, part in terms:
                    tag = "".join(str(v) for v in part if v is not None)
                    rels.append((f"{label}:coefficient@{tag}", P_ * ex["w"] * entry["ov"] * len(terms), entry["w"] * ex["ov"]))
                return
            lhs, rhs = {}, {}
            for P_, ex, part in terms:
                lhs = fock.add_states(lhs, fock.scale(fv(ex["Wu"], ex["Wd"]), P_ * ex["w"] / ex["ov"]))
                du, dd = self._scalings(inp, part, one)
                rhs = fock.add_states(rhs, fv(self._rows(du, entry["Wu"]), self._rows(dd, entry["Wd"])))
            k_ = entry["w"] / entry["ov"] * Fraction(1, len(terms))
            for key in sorted(set(lhs) | set(rhs)):
                rels.append((f"{label}:unbiased[{key:0{2 * n}b}]", lhs.get(key, zero), rhs.get(key, zero) * k_))

        c0 = self.sel[0]
        per_impl = []
        for m, impl in enumerate(self.impls):
            fast = impl == "fast"
            seen = {"impl": impl}
            rec = self._rec[(c0, m)]
            # first segment: one-body half step from the initial state
            AWu, AWd = cm.matmul(A[0], inp["Wu"]), cm.matmul(A[1], inp["Wd"])
            coherent(f"{impl}:first", rec["pre"], fast, AWu, AWd)
            rels.append((f"{impl}:first:weight/overlap", rec["pre"]["w"] * sem_ov(inp["Wu"], inp["Wd"]), inp["w"][()] * rec["pre"]["ov"]))
            seen["first"] = rec["pre"]
            # on-site fields
            for t in range(n):
                terms = []
                for s in (0, 1):
                    c = next(c for c in self.sel if self.configs[c][t] == s)
                    r_ = self._rec[(c, m)]
                    entry, ex = r_[("in", t)], r_[("out", t)]
                    part = tuple(s if x == t else None for x in range(nf))
                    du, dd = self._scalings(inp, part, one)
                    coherent(f"{impl}:site{t}:field{s}", ex, fast, self._rows(du, entry["Wu"]), self._rows(dd, entry["Wd"]))
                    p0 = mk[(c, m)][t][3]
                    terms.append((p0 if s == 0 else one - p0, ex, part))
                    seen[("site", t, s)] = (ex, p0)
                fock_sum(f"{impl}:site{t}", entry, terms, None)
            # neighbour bonds: the four fields of one bond are one scan iteration
            for b in range(nb):
                terms = []
                for cb in itertools.product((0, 1), repeat=4):
                    c = next(c for c in self.sel if tuple(self.configs[c][n + 4 * b:n + 4 * b + 4]) == cb)
                    r_ = self._rec[(c, m)]
                    entry, ex = r_[("in", n + b)], r_[("out", n + b)]
                    part = tuple(cb[x - n - 4 * b] if n + 4 * b <= x < n + 4 * b + 4 else None for x in range(nf))
                    du, dd = self._scalings(inp, part, one)
                    tag = "".join(map(str, cb))
                    coherent(f"{impl}:bond{b}:fields{tag}", ex, fast, self._rows(du, entry["Wu"]), self._rows(dd, entry["Wd"]))
                    P_ = one
                    ps = []
                    for k in range(4):
                        p0 = mk[(c, m)][n + 4 * b + k][3]
                        ps.append(p0)
                        P_ = P_ * (p0 if cb[k] == 0 else one - p0)
                    terms.append((P_, ex, part))
                    seen[("bond", b, cb)] = (ex, ps)
                fock_sum(f"{impl}:bond{b}", entry, terms, None)
            # every incremental Green's function update against the from-scratch value (fast propagators)
            for c in self.sel:
                for seg, j, got, want in self._rec[(c, m)].get("updates", []):
                    eq_arr(f"{impl}:greens-update:seg{seg}:substep{j}@{''.join(map(str, self.configs[c]))}", got, want)
            # last segment: one-body half step, energy shift
            entry = rec[("in", self.nseg - 1)]
            Wu1, Wd1, w1, ov1, G1 = outs[c0 * ni + m]
            fin = {"Wu": Wu1, "Wd": Wd1, "w": w1[()], "ov": ov1[()], "G": G1}
            coherent(f"{impl}:last", fin, fast, cm.matmul(A[0], entry["Wu"]), cm.matmul(A[1], entry["Wd"]))
            rels.append((f"{impl}:last:weight/overlap", fin["w"] * entry["ov"], entry["w"] * expE * fin["ov"]))
            seen["last"] = fin
            per_impl.append(seen)
        # fast = slow, segment by segment from the same valid state
        f_, s_ = per_impl
        for key in f_:
            if key == "impl":
                continue
            a, b = f_[key], s_[key]
            tag = key if isinstance(key, str) else ":".join(map(str, key))
            if isinstance(a, tuple):
                (sa, pa), (sb, pb) = a, b
                for k_, (x, y) in enumerate(zip(pa if isinstance(pa, list) else [pa], pb if isinstance(pb, list) else [pb])):
                    rels.append((f"fast=slow:{tag}:probability{k_}", x, y))
            else:
                sa, sb = a, b
            for nm in ("Wu", "Wd"):
                eq_arr(f"fast=slow:{tag}:{nm}", sa[nm], sb[nm])
            rels.append((f"fast=slow:{tag}:weight", sa["w"], sb["w"]))
            rels.append((f"fast=slow:{tag}:overlap", sa["ov"], sb["ov"]))
        return rels

    # ---- float mode: precondition by definition, probabilities by measurement on the real code ------------------------------
    def _ov(self, inp, Wu, Wd):
        Wu, Wd = np.array(Wu, dtype=float), np.array(Wd, dtype=float)
        if self.kindname == "uhf_cpmc":
            return float(np.linalg.det(np.array(inp["Cu"], dtype=float).T @ Wu) * np.linalg.det(np.array(inp["Cd"], dtype=float).T @ Wd))
        n = self.norb
        W = np.zeros((2 * n, Wu.shape[1] + Wd.shape[1]))
        W[:n, :Wu.shape[1]] = Wu
        W[n:, Wu.shape[1]:] = Wd
        return float(np.linalg.det(np.array(inp["C"], dtype=float).T @ W))

    def _inactive(self, inp, expE, margin=4.0):
        """no constraint is active on any configuration (thresholds by their definition, with a safety margin)"""
        A = np.array(inp["A"], dtype=float)
        Wu, Wd = np.array(inp["Wu"], dtype=float), np.array(inp["Wd"], dtype=float)
        lo, hi = 1.0e-8 * margin, 100.0 / margin
        o0 = self._ov(inp, Wu, Wd)
        Wu, Wd = A[0] @ Wu, A[1] @ Wd
        o1 = self._ov(inp, Wu, Wd)
        if o0 == 0 or o1 == 0:
            return False
        w1 = float(inp["w"][()]) * o1 / o0
        if not (np.isfinite(w1) and w1 >= lo):
            return False
        finp = {k: np.array(v, dtype=float) for k, v in inp.items() if k in ("hs", "hsn")}

        def sc(part):
            du, dd = self._scalings(finp, part, 1.0)
            return np.array(du, dtype=float)[:, None], np.array(dd, dtype=float)[:, None]
        for cfg in self.configs:
            w = w1
            for f in range(self.nf):
                du, dd = sc(tuple(cfg[:f]) + (None,) * (self.nf - f))
                base = self._ov(inp, du * Wu, dd * Wd)
                r = []
                for val in (0, 1):
                    du, dd = sc(tuple(cfg[:f]) + (val,) + (None,) * (self.nf - f - 1))
                    r.append(self._ov(inp, du * Wu, dd * Wd) / base if base != 0 else np.nan)
                if not (np.isfinite(r[0]) and np.isfinite(r[1]) and r[0] >= lo and r[1] >= lo):
                    return False
                w *= (r[0] + r[1]) / 2.0
            du, dd = sc(cfg)
            Xu, Xd = du * Wu, dd * Wd
            w2 = w * self._ov(inp, A[0] @ Xu, A[1] @ Xd) / self._ov(inp, Xu, Xd)
            if not (np.isfinite(w2) and w2 >= lo and w2 * expE <= hi):
                return False
        return True

    def _measure(self, inp):
        """P(sigma) of the REAL code: for every prefix of decided fields, the uniform number at which the next field changes branch"""
        import jax.numpy as jnp
        kw = {k: jnp.asarray(np.array(v, dtype=float)) for k, v in inp.items()}
        memo_key = tuple((k, tuple(np.array(v, dtype=float).reshape(-1))) for k, v in sorted(inp.items()) if not k.startswith("S"))
        if getattr(self, "_measure_memo", (None, None))[0] == memo_key:
            return self._measure_memo[1]
        prob = {}
        with self._patched():
            for m, prop in enumerate(self.props):
                cache = {}

                import jax
                stepj = jax.jit(lambda kw_, rn_, prop=prop: self._step(kw_, prop, rn_)[:3])

                def run(u, stepj=stepj):
                    o = stepj(kw, self._rn(u))
                    return np.concatenate([np.asarray(o[0]).reshape(-1), np.asarray(o[1]).reshape(-1), np.asarray(o[2]).reshape(-1)])

                def p_of(prefix):
                    if prefix in cache:
                        return cache[prefix]
                    f = len(prefix)
                    base = list(map(float, prefix)) + [0.0] * (self.nf - f)
                    ref0 = run(base)
                    b1 = list(base)
                    b1[f] = 1.0
                    ref1 = run(b1)
                    if np.allclose(ref0, ref1, rtol=1e-13, atol=0):
                        cache[prefix] = 0.5  # both branches coincide: the probability cannot matter
                        return 0.5
                    lo, hi = 0.0, 1.0
                    for _ in range(40):
                        mid = 0.5 * (lo + hi)
                        b = list(base)
                        b[f] = mid
                        r = run(b)
                        if np.abs(r - ref0).max() <= np.abs(r - ref1).max():
                            lo = mid
                        else:
                            hi = mid
                    cache[prefix] = 0.5 * (lo + hi)
                    return cache[prefix]
                for c, cfg in enumerate(self.configs):
                    P_ = 1.0
                    for f in range(self.nf):
                        p0 = p_of(tuple(cfg[:f]))
                        P_ *= p0 if cfg[f] == 0 else 1.0 - p0
                    prob[(c, m)] = P_
        self._measure_memo = (memo_key, prob)
        return prob

    def replay_variants(self, vals):
        for k in range(3):
            V = StepConc(991 + k)
            self.inputs(V)
            yield dict(V.values)


class OneBody(engine_g.GCase):
    """exp_h1 used by the CPMC propagators vs exp(-dt K/2), K = h1 (series in dt: here s = dt, order 1)"""
    check_id = "C10"
    order = 2
    claim_orders = (0, 1)
    nf = 0
    validate_s0 = Fraction(1, 64)
    replay_steps = (Fraction(1, 16), Fraction(1, 32), Fraction(1, 64))

    def __init__(self, args):
        self.args = args
        self.norb, self.nchol = args["norb"], args["nchol"]
        self.prop_name = args.get("prop", "propagator_cpmc")
        self.name = f"one-body-half-step:{self.prop_name}:norb={self.norb}:nchol={self.nchol}"
        from ad_afqmc import wavefunctions
        self.trial = wavefunctions.uhf_cpmc(self.norb, (1, 1))

    def functions(self):
        return [f"ad_afqmc.propagation.{self.prop_name}._build_propagation_intermediates (inherited from propagator_unrestricted)",
                f"ad_afqmc.propagation.{self.prop_name}.propagate_one_body"]

    def inputs(self, V):
        n = self.norb
        d = {"dt": arr((), lambda i: V.s(1))}
        d.update(cm.ham_inputs(V, n, self.nchol, spin_dep=True))
        d["rdm1"] = np.stack([cm.symm(V, "ra", n), cm.symm(V, "rb", n)])
        return d

    def call(self, **kw):
        import jax
        from ad_afqmc import propagation
        with jax.disable_jit():
            kwargs = {"neighbors": ((0, 1),)} if "nn" in self.prop_name else {}
            prop = getattr(propagation, self.prop_name)(dt=kw["dt"], n_walkers=1, **kwargs)
            hd = {"h0": kw["h0"], "h1": kw["h1"], "chol": kw["chol"], "ene0": 0.0}
            hd = prop._build_propagation_intermediates(hd, self.trial, {"rdm1": kw["rdm1"]})
            return hd["exp_h1"]

    def relations(self, inp, out):
        n = self.norb
        h1 = np.vectorize(lambda g: g.const() if isinstance(g, G) else g, otypes=[object])(inp["h1"])
        rels = []
        half = Fraction(1, 2)
        for s in range(2):
            for p in range(n):
                for q in range(n):
                    rhs = {(0, ()): Q(1 if p == q else 0), (1, ()): -(h1[s, p, q] * half)}
                    rels.append((f"exp_h1[{s}]", out[s, p, q], rhs))
        return rels

    def residual(self, inp, out, s, vals, rerun=None):
        import scipy.linalg
        h1 = np.array([[[complex(x).real for x in row] for row in m] for m in inp["h1"]])
        res = {}
        for sp in range(2):
            ref = scipy.linalg.expm(-s * h1[sp] / 2.0)
            res[f"exp_h1[{sp}]"] = float(np.abs(np.asarray(out)[sp] - ref).max())
        return res


class HSConstants(engine.Case):
    check_id = "C10"
    n_validate = 1
    holo = False

    def __init__(self, args):
        self.args = args
        self.prop_name = args.get("prop", "propagator_cpmc")
        self.name = f"hs-constants:{self.prop_name}"
        from ad_afqmc import wavefunctions
        self.trial = wavefunctions.uhf_cpmc(2, (1, 1))

    def functions(self):
        return [f"ad_afqmc.propagation.{self.prop_name}.init_prop_data"]

    def conc(self, seed):
        return engine.ConcV(seed, lo=1, hi=4)

    def inputs(self, V):
        return {"u": arr((), lambda i: V.r("U"))}

    def pre(self, inp):
        return [qdom.tz(inp["u"][()].c[0]) > 0] + list(getattr(self, "_facts", []))

    def call(self, **kw):
        import jax.numpy as jnp
        from ad_afqmc import propagation
        kwargs = {"neighbors": ((0, 1),)} if "nn" in self.prop_name else {}
        prop = getattr(propagation, self.prop_name)(dt=0.01, n_walkers=1, **kwargs)
        C = jnp.eye(2)[:, :1]
        wd = {"mo_coeff": [C, C], "rdm1": jnp.array([C @ C.T, C @ C.T])}
        hd = {"h0": 0.0, "h1": jnp.zeros((2, 2, 2)), "chol": jnp.zeros((1, 4)), "ene0": 0.0, "u": kw["u"], "u_1": kw["u"]}
        hd = self.trial._build_measurement_intermediates(hd, wd)
        hd["exp_h1"] = jnp.array([jnp.eye(2), jnp.eye(2)])
        W = [C[None] + 0.0j, C[None] + 0.0j]
        pd = prop.init_prop_data(self.trial, wd, hd, W)
        key = "hs_constant" if "hs_constant" in pd else "hs_constant_onsite"
        return pd[key], jnp.exp(-0.01 * kw["u"])

    def relations(self, inp, out):
        hs, decay = out
        # contracts of the transcendental atoms (A3): exp(g) exp(-g) = 1, (exp(g) + exp(-g))/2 = exp(dt U/2), exp(-dt U/2) exp(dt U/2) = 1,
        # exp(-dt U) = exp(-dt U/2)^2 : added as facts on the atoms found by name and argument
        self._facts = _hs_facts()
        one = Q(1)
        half = Fraction(1, 2)
        rels = []
        # site occupied by up only / down only: (B_0 + B_1)/2 = 1 ; doubly occupied: exp(-dt U) ; branch symmetry
        rels.append(("single_up", (hs[0, 0] + hs[1, 0]) * half, one))
        rels.append(("single_dn", (hs[0, 1] + hs[1, 1]) * half, one))
        rels.append(("double", (hs[0, 0] * hs[0, 1] + hs[1, 0] * hs[1, 1]) * half, decay[()]))
        return rels


def _hs_facts():
    """relations between the opaque exp / acosh atoms that follow from the functions' contracts"""
    facts = []
    items = list(qdom._OPAQUE_ARGS.items())
    exps = [(args[0], val) for (name, _), (val, args) in items if name == "exp"]
    acosh = [(args[0], val) for (name, _), (val, args) in items if name == "acosh"]

    def zv(q):
        return qdom.tz(qdom._real_value(q, "fact"))

    def same(x, y):
        d = qdom.diff_polys(x, y)
        return d is not None and all(qdom.rzero(t) for t in d)
    for a, ea in exps:
        for b, eb in exps:
            if same(a, -b):
                facts.append(zv(ea) * zv(eb) == 1)
            if same(a * 2, b):
                facts.append(zv(eb) == zv(ea) * zv(ea))
        facts.append(zv(ea) > 0)
    for y, g in acosh:
        for a, ea in exps:
            if same(a, g):  # exp(acosh(y))
                for b, eb in exps:
                    if same(b, -g):
                        facts.append(zv(ea) + zv(eb) == 2 * zv(y))
    return facts


def cases(tier):
    out = []
    for kind, norb, nelec, opt, nch in (("uhf_cpmc", 3, (1, 1), {}, 1), ("uhf_cpmc", 3, (2, 1), {"ident": 1}, 2), ("ghf_cpmc", 2, (1, 1), {"ident": 1}, 1),
                                        ("ghf_cpmc", 3, (1, 1), {"ident": 1}, 2)):
        for ch in range(nch):
            out.append({"type": "fast", "kind": kind, "norb": norb, "nelec": list(nelec), "opt": opt, "chunk": ch, "nchunks": nch})
    if tier == "thorough":
        for ch in range(4):
            out.append({"type": "fast", "kind": "uhf_cpmc", "norb": 4, "nelec": [2, 2], "opt": {"ident": 1}, "chunk": ch, "nchunks": 4})
            out.append({"type": "fast", "kind": "uhf_cpmc", "norb": 3, "nelec": [2, 1], "opt": {}, "chunk": ch, "nchunks": 4})
    out.append({"type": "step", "family": "onsite", "kind": "uhf_cpmc", "norb": 2, "nelec": [1, 1]})
    out.append({"type": "step", "family": "onsite", "kind": "ghf_cpmc", "norb": 2, "nelec": [1, 1]})
    out.append({"type": "step", "family": "onsite", "kind": "uhf_cpmc", "norb": 3, "nelec": [2, 1]})
    out.append({"type": "step", "family": "nn", "kind": "uhf_cpmc", "norb": 2, "nelec": [1, 1], "neighbors": [[0, 1]]})
    # not run (measured): ghf_cpmc at (3;1,1) and the neighbour propagators with ghf_cpmc (> 20 min per case); 3 sites with 2 bonds would be
    # 2^11 configurations x 2 propagators in one trace
    for prop in ("propagator_cpmc", "propagator_cpmc_nn"):
        out.append({"type": "onebody", "norb": 2, "nchol": 1, "prop": prop})
        out.append({"type": "hs", "prop": prop})
    return out


def run(args, seed, known):
    if args["type"] == "step":
        return engine.run_case(Step(args), seed=seed, known=known)
    if args["type"] == "fast":
        return engine.run_case(FastUpdate(args), seed=seed, known=known)
    if args["type"] == "onebody":
        return engine_g.run_gcase(OneBody(args), seed=seed, known=known)
    return engine.run_case(HSConstants(args), seed=seed, known=known)


def replay(data):
    a = data["case_args"]
    if a["type"] == "step":
        case = Step(a)
        case._labels_seen = [data["label"]]
        return engine.replay_file(case, data)
    if a["type"] == "fast":
        return engine.replay_file(FastUpdate(a), data)
    if a["type"] == "onebody":
        return engine_g.replay_file_g(OneBody(a), data)
    return engine.replay_file(HSConstants(a), data)
