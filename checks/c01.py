"""C01 - trial overlap = <psi_T|phi> (Fock-space inner product); restricted = unrestricted entry;
batched evaluation in walker order; 1-RDM of single-determinant / NOCI trials = <a+ a>."""
import itertools
from fractions import Fraction

import numpy as np

from vf import engine, fock, qdom
from vf.jx import arr, obj
from vf.qdom import Q
from . import common as cm
from . import mslater

META = {
    "level": "model_checking",
    "functions": [],
    "trusted": ["z3 5.1.0 (nlsat)", "JAX tracing: jaxpr = what the code computes at that shape (A6)",
                "det/inv contract stubs: Leibniz determinant, adjugate inverse (A2)",
                "exact real arithmetic for float64 (A1); counterexamples replayed in float64"],
    "assumptions": ["A1 reals for floats (rounding outside the claim; every model replayed on the real jitted code)",
                    "A2 jnp.linalg.det/inv replaced by contract stubs (Leibniz / adjugate); LAPACK itself not verified",
                    "A6 tracing = execution for the traced shapes and static arguments",
                    "denominators (trial-walker overlap matrices) assumed invertible"],
    "bounds": {"quick": "norb<=4, <=2 electrons per spin, <=2 NOCI determinants, <=4 multi-Slater determinants, "
                        "2-4 walkers for batching; all walker entries, trial parameters and CI coefficients symbolic",
               "thorough": "adds (4;2,1),(4;3,1),(3;2,0),(2;1,0) shapes, 3 NOCI determinants, symbolic trial orbitals at norb=4, "
                           "every reference choice of every <=4-determinant list over (3;2,1) and more lists over (4;2,2)"},
    "outside": "norb>4, >3 electrons per spin, floating-point rounding, LAPACK det/inv, complex trial orbitals",
}


class OverlapCase(engine.Case):
    check_id = "C01"

    def __init__(self, args):
        self.args = args
        self.kind = cm.KINDS[args["kind"]]
        self.norb, self.nelec = args["norb"], tuple(args["nelec"])
        self.opt = args.get("opt", {})
        self.entry = args.get("entry", "u")  # u: _calc_overlap, r: _calc_overlap_restricted
        self.name = f"overlap:{self.kind.name}:{cm.shape_tag(self.norb, self.nelec)}:{self.entry}:" + \
                    ",".join(f"{k}={v}" for k, v in sorted(self.opt.items()))
        self.timeout_s = args.get("timeout", 120)
        from ad_afqmc import wavefunctions
        self.trial = self.kind.make(wavefunctions, self.norb, self.nelec, self.opt)

    def functions(self):
        c = type(self.trial).__name__
        return [f"ad_afqmc.wavefunctions.{c}._calc_overlap" + ("_restricted" if self.entry == "r" else "")]

    def inputs(self, V):
        d = {"Wu": cm.walker(V, "wu", self.norb, self.nelec[0])}
        if self.entry == "u":
            d["Wd"] = cm.walker(V, "wd", self.norb, self.nelec[1])
        d.update(self.kind.params(V, self.norb, self.nelec, self.opt))
        return d

    def _split(self, kw):
        p = {k: v for k, v in kw.items() if k not in ("Wu", "Wd")}
        return p

    def call(self, **kw):
        wd = self.kind.wave_data(self._split(kw))
        if self.entry == "u":
            return self.trial._calc_overlap(kw["Wu"], kw["Wd"], wd)
        return self.trial._calc_overlap_restricted(kw["Wu"], wd)

    def relations(self, inp, out):
        p = self._split(inp)
        Wu = inp["Wu"]
        Wd = inp["Wd"] if self.entry == "u" else Wu[:, : self.nelec[1]]
        psi = self.kind.state(p, self.norb, self.nelec)
        phi = cm.walker_state(self.kind, p, self.norb, self.nelec, Wu, Wd)
        ov = fock.inner(psi, phi)
        return [("overlap", out[()], ov)]


class RUCase(engine.Case):
    """restricted entry point == unrestricted entry point on [W, W[:, :n_dn]] (both real code)"""
    check_id = "C01"

    def __init__(self, args):
        self.args = args
        self.kind = cm.KINDS[args["kind"]]
        self.norb, self.nelec = args["norb"], tuple(args["nelec"])
        self.opt = args.get("opt", {})
        self.name = f"r_eq_u:{self.kind.name}:{cm.shape_tag(self.norb, self.nelec)}"
        from ad_afqmc import wavefunctions
        self.trial = self.kind.make(wavefunctions, self.norb, self.nelec, self.opt)

    def functions(self):
        c = type(self.trial).__name__
        return [f"ad_afqmc.wavefunctions.{c}._calc_overlap_restricted", f"ad_afqmc.wavefunctions.{c}._calc_overlap"]

    def inputs(self, V):
        d = {"W": cm.walker(V, "w", self.norb, self.nelec[0])}
        d.update(self.kind.params(V, self.norb, self.nelec, self.opt))
        return d

    def call(self, **kw):
        wd = self.kind.wave_data({k: v for k, v in kw.items() if k != "W"})
        W = kw["W"]
        return (self.trial._calc_overlap_restricted(W, wd), self.trial._calc_overlap(W, W[:, : self.nelec[1]], wd))

    def relations(self, inp, out):
        return [("restricted==unrestricted", out[0][()], out[1][()])]


class BatchCase(engine.Case):
    """calc_overlap(batch)[k] == single-walker call on walker k, for every divisor n_batch"""
    check_id = "C01"

    def __init__(self, args):
        self.args = args
        self.kind = cm.KINDS[args["kind"]]
        self.norb, self.nelec = args["norb"], tuple(args["nelec"])
        self.nw, self.nb = args["n_walkers"], args["n_batch"]
        self.container = args["container"]  # "list" (unrestricted) | "array" (restricted)
        self.opt = dict(args.get("opt", {}), n_batch=self.nb)
        self.name = f"batch:{self.kind.name}:{cm.shape_tag(self.norb, self.nelec)}:{self.container}:nw={self.nw}:nb={self.nb}"
        from ad_afqmc import wavefunctions
        self.trial = self.kind.make(wavefunctions, self.norb, self.nelec, self.opt)

    def functions(self):
        return ["ad_afqmc.wavefunctions.wave_function.calc_overlap"]

    def inputs(self, V):
        d = {"Wu": arr((self.nw, self.norb, self.nelec[0]), lambda i: V.c(f"wu{i[0]}_{i[1]}{i[2]}"))}
        if self.container == "list":
            d["Wd"] = arr((self.nw, self.norb, self.nelec[1]), lambda i: V.c(f"wd{i[0]}_{i[1]}{i[2]}"))
        d.update(self.kind.params(V, self.norb, self.nelec, self.opt))
        return d

    def call(self, **kw):
        wd = self.kind.wave_data({k: v for k, v in kw.items() if k not in ("Wu", "Wd")})
        if self.container == "list":
            b = self.trial.calc_overlap([kw["Wu"], kw["Wd"]], wd)
            s = [self.trial._calc_overlap(kw["Wu"][k], kw["Wd"][k], wd) for k in range(self.nw)]
        else:
            b = self.trial.calc_overlap(kw["Wu"], wd)
            s = [self.trial._calc_overlap_restricted(kw["Wu"][k], wd) for k in range(self.nw)]
        return b, s

    def relations(self, inp, out):
        b, s = out
        return [(f"walker{k}", b[k], s[k][()]) for k in range(self.nw)]


class RdmCase(engine.Case):
    """get_rdm1 = <psi|a+_p a_q|psi>/<psi|psi> per spin (orthonormal orbitals not needed for the identity:
    both sides are rational functions of the orbitals; the 1/<psi|psi> is kept explicit)"""
    check_id = "C01"

    def __init__(self, args):
        self.args = args
        self.kind = cm.KINDS[args["kind"]]
        self.norb, self.nelec = args["norb"], tuple(args["nelec"])
        self.opt = args.get("opt", {})
        self.name = f"rdm1:{self.kind.name}:{cm.shape_tag(self.norb, self.nelec)}:" + ",".join(f"{k}={v}" for k, v in sorted(self.opt.items()))
        self.timeout_s = args.get("timeout", 120)
        from ad_afqmc import wavefunctions
        self.trial = self.kind.make(wavefunctions, self.norb, self.nelec, self.opt)

    def functions(self):
        c = type(self.trial).__name__
        return [f"ad_afqmc.wavefunctions.{c}._calc_rdm1", "ad_afqmc.wavefunctions.wave_function.get_rdm1"]

    def inputs(self, V):
        return self.kind.params(V, self.norb, self.nelec, self.opt)

    def call(self, **kw):
        return self.trial.get_rdm1(self.kind.wave_data(kw))

    def relations(self, inp, out):
        psi = self.kind.state(inp, self.norb, self.nelec)
        nrm = fock.inner(psi, psi)
        rels = []
        norb = self.norb
        for s in range(2):
            for p in range(norb):
                for q in range(norb):
                    M = obj((norb, norb))
                    for i in range(norb):
                        for j in range(norb):
                            M[i, j] = Q(1) if (i, j) == (p, q) else Q(0)
                    Z = obj((norb, norb))
                    Z[...] = Q(0)
                    mats = [M, Z] if s == 0 else [Z, M]
                    if not isinstance(nrm, Q):
                        mats = [engine.to_py(m) for m in mats]
                    num = fock.inner(psi, fock.apply_onebody(norb, mats, psi))
                    # the property defines rdm1[s][p,q] = <a+_ps a_qs>; for real orbitals it is symmetric
                    rels.append((f"rdm1[{s}][{p},{q}]", out[s, p, q] * nrm, num))
        return rels


CASES = {"overlap": OverlapCase, "ru": RUCase, "batch": BatchCase, "rdm": RdmCase, "ms": mslater.MSOverlapCase}


def cases(tier):
    out = []
    # (kind, shape, opt, entries)
    Q_ = [
        ("rhf", 3, (1, 1), {}), ("rhf", 3, (2, 2), {}), ("rhf", 4, (2, 2), {"ident": 1}),
        ("uhf", 3, (2, 1), {}), ("uhf", 4, (2, 2), {"ident": 1}), ("uhf", 3, (1, 0), {}),
        ("ghf", 2, (1, 1), {}), ("ghf", 3, (2, 1), {"ident": 1}),
        ("noci", 3, (2, 1), {"ndets": 2}), ("noci", 3, (1, 0), {"ndets": 2}),
        ("CISD", 3, (1, 1), {}), ("CISD", 4, (2, 2), {}),
        ("cisd", 3, (1, 1), {}), ("cisd", 4, (2, 2), {}),
        ("CISD_THC", 3, (1, 1), {"nthc": 2}), ("CISD_THC", 4, (2, 2), {"nthc": 2}),
        ("UCISD", 3, (2, 1), {"moB_ident": 1}), ("UCISD", 4, (2, 2), {"moB_ident": 1}),
        ("ucisd", 3, (2, 1), {"moB_ident": 1}), ("ucisd", 4, (2, 2), {"moB_ident": 1}), ("ucisd", 3, (1, 0), {"moB_ident": 1}),
        ("UCISD", 3, (1, 1), {}), ("ucisd", 3, (1, 1), {}),
        ("GCISD", 2, (1, 1), {}), ("GCISD", 3, (2, 1), {}),
    ]
    T_ = [
        ("rhf", 4, (2, 2), {}), ("rhf", 4, (3, 3), {"ident": 1}), ("uhf", 4, (2, 1), {}), ("uhf", 4, (3, 1), {"ident": 1}),
        ("uhf", 3, (2, 0), {}), ("uhf", 2, (1, 0), {}), ("ghf", 3, (2, 1), {}), ("ghf", 3, (1, 1), {}),
        ("noci", 3, (2, 1), {"ndets": 3}), ("noci", 4, (2, 2), {"ndets": 2}), ("noci", 3, (2, 0), {"ndets": 2}),
        ("CISD", 4, (1, 1), {}), ("cisd", 4, (1, 1), {}), ("cisd", 4, (3, 3), {}), ("CISD", 4, (3, 3), {}),
        ("CISD_THC", 4, (2, 2), {"nthc": 3}), ("UCISD", 4, (2, 1), {"moB_ident": 1}), ("ucisd", 4, (2, 1), {"moB_ident": 1}),
        ("ucisd", 4, (3, 1), {"moB_ident": 1}), ("ucisd", 3, (2, 0), {"moB_ident": 1}), ("UCISD", 3, (2, 1), {}),
        ("ucisd", 3, (2, 1), {}), ("GCISD", 3, (1, 1), {}),
    ]
    lst = Q_ + (T_ if tier == "thorough" else [])
    for kind, norb, nelec, opt in lst:
        K = cm.KINDS[kind]
        uok = getattr(K, "unrestricted_ok", True)
        if uok:
            out.append({"type": "overlap", "kind": kind, "norb": norb, "nelec": list(nelec), "opt": opt, "entry": "u"})
        if K.restricted_ok and nelec[0] >= nelec[1]:
            if K.closed_shell and nelec[0] != nelec[1]:
                continue
            out.append({"type": "overlap", "kind": kind, "norb": norb, "nelec": list(nelec), "opt": opt, "entry": "r"})
            if uok:
                out.append({"type": "ru", "kind": kind, "norb": norb, "nelec": list(nelec), "opt": opt})
    # batching: every divisor of the walker count, both containers
    for kind, norb, nelec in (("uhf", 2, (1, 1)), ("noci", 2, (1, 1)), ("rhf", 2, (1, 1)), ("cisd", 3, (1, 1)), ("UCISD", 3, (1, 1))):
        K = cm.KINDS[kind]
        for nw in ((2, 4) if tier == "quick" else (2, 3, 4, 6)):
            for nb in [d for d in range(1, nw + 1) if nw % d == 0]:
                conts = ["list"] if not K.restricted_ok else (["list", "array"] if kind != "cisd" else ["array"])
                if kind in ("UCISD",):
                    conts = ["list"]
                for c in conts:
                    out.append({"type": "batch", "kind": kind, "norb": norb, "nelec": list(nelec), "n_walkers": nw,
                                "n_batch": nb, "container": c, "opt": {"moB_ident": 1} if kind == "UCISD" else {}})
    # 1-RDM
    O = {"orth": 1}
    for kind, norb, nelec, opt in [("rhf", 3, (1, 1), O), ("rhf", 3, (2, 2), O), ("uhf", 3, (2, 1), O), ("uhf", 3, (1, 0), O),
                                   ("ghf", 2, (1, 1), O), ("noci", 2, (1, 1), {"ndets": 2}), ("noci", 3, (1, 1), {"ndets": 2}), ("noci", 3, (2, 2), {"ndets": 2}),
                                   ("noci", 3, (2, 1), {"ndets": 2}), ("uhf", 3, (2, 2), O)] + \
                                  ([("rhf", 4, (2, 2), O), ("noci", 3, (2, 1), {"ndets": 3}), ("noci", 4, (2, 2), {"ndets": 2})] if tier == "thorough" else []):
        out.append({"type": "rdm", "kind": kind, "norb": norb, "nelec": list(nelec), "opt": opt})
    # not run (measured: polynomial budget exceeded, > 1.5e6 terms): rdm1 uhf (4;2,1) and ghf (3;1,1) with symbolic orthogonal orbitals
    out += mslater.overlap_cases(tier)
    return out


def run(args, seed, known):
    return engine.run_case(CASES[args["type"]](args), seed=seed, known=known)


def replay(data):
    return engine.replay_file(CASES[data["case_args"]["type"]](data["case_args"]), data)
