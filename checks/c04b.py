"""C04 part B: the weight actually applied by propagate() = |imp| * max(0, cos theta) with the NaN / window rule (IEEE-754)."""
from . import propf


def cases(tier):
    out = [{"type": "B", "check_id": "C04", "mode": "rule", "restricted": False, "n_walkers": 2, "dt": 0.01},
           {"type": "B", "check_id": "C04", "mode": "rule", "restricted": True, "n_walkers": 2, "dt": 0.01}]
    if tier == "thorough":
        out += [{"type": "B", "check_id": "C04", "mode": "rule", "restricted": False, "n_walkers": 3, "dt": 0.005},
                {"type": "B", "check_id": "C04", "mode": "rule", "restricted": False, "n_walkers": 2, "dt": 0.5}]
    return out


run = propf.run
replay = propf.replay
