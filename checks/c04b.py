"""C04 part B placeholder (filled in below)."""


def cases(tier):
    return []


def run(args, seed, known):
    raise NotImplementedError


def replay(data):
    raise NotImplementedError
