"""C09 - weights stay real, finite and >= 0; dead walkers stay dead; the shift stays finite while a walker is alive;
the killed-walker fraction lies in [0,1].  Decided as ONE inductive step in IEEE-754 from an arbitrary valid pre-state
(every weight a finite double >= 0) with everything upstream havocked: the invariant is preserved by each step, hence by
every history of steps and blocks."""
from . import propf, cpmcf

META = {
    "level": "model_checking",
    "trusted": ["z3 5.1.0 QF_FP (bit-precise IEEE-754 binary64, RNE)", "JAX tracing (A6)",
                "products/quotients of two symbolic doubles abstracted by uninterpreted functions with lemma instances; every lemma is "
                "discharged against the exact fpMul/fpDiv in the same run"],
    "assumptions": ["A3 havoc: every complex / linear-algebra / transcendental intermediate (force bias, propagated walker, overlaps, "
                    "Green's functions, exp, erf, cos, angle) is an arbitrary double subject only to its IEEE contract",
                    "pre-state = the invariant: each weight is a finite double >= 0 that is either 0 or >= 1e-300 (below that sum(w)/n "
                    "underflows to 0 and log(0) = -inf: stated bound)", "|e_estimate| <= 1e300",
                    "reduce_sum modelled as a left fold (weights are non-negative, no cancellation)",
                    "a solver candidate is reported as a violation only if a hostile concrete input reproduces it on the real function"],
    "bounds": {"quick": "one step, 2 walkers, norb 2, every double for weights / fields / havocked intermediates; phaseless restricted+unrestricted, "
                        "CPMC fast / slow / nn / continuous one step",
               "thorough": "3 walkers, several dt"},
    "outside": "more than one step at a time (covered by induction on the invariant), n_walkers > 3, XLA re-association of sums",
}


def cases(tier):
    out = [{"type": "phaseless", "check_id": "C09", "mode": "invariants", "restricted": False, "n_walkers": 2, "dt": 0.01},
           {"type": "phaseless", "check_id": "C09", "mode": "invariants", "restricted": True, "n_walkers": 2, "dt": 0.01}]
    if tier == "thorough":
        out += [{"type": "phaseless", "check_id": "C09", "mode": "invariants", "restricted": False, "n_walkers": 3, "dt": 0.5},
                {"type": "phaseless", "check_id": "C09", "mode": "invariants", "restricted": True, "n_walkers": 2, "dt": 1e-6}]
    out += cpmcf.cases(tier)
    return out


def run(args, seed, known):
    return propf.run(args, seed, known) if args["type"] == "phaseless" else cpmcf.run(args, seed, known)


def replay(data):
    return propf.replay(data) if data["case_args"]["type"] == "phaseless" else cpmcf.replay(data)
