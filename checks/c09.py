"""C09 - weights stay real, finite and >= 0; dead walkers stay dead; the shift stays finite while a walker is alive;
the killed-walker fraction lies in [0,1].  Decided as ONE inductive step in IEEE-754 from an arbitrary valid pre-state
(every weight a finite double >= 0) with everything upstream havocked: the invariant is preserved by each step, hence by
every history of steps and blocks."""
from vf import engine, qdom
from vf.qdom import Q
from . import propf, cpmcf, c08

META = {
    "level": "model_checking",
    "trusted": ["z3 5.1.0 QF_FP (bit-precise IEEE-754 binary64, RNE)", "JAX tracing (A6)",
                "products/quotients of two symbolic doubles abstracted by uninterpreted functions with lemma instances; every lemma is "
                "discharged against the exact fpMul/fpDiv in the same run"],
    "assumptions": ["A3 havoc: every complex / linear-algebra / transcendental intermediate (force bias, propagated walker, overlaps, "
                    "Green's functions, exp, erf, cos, angle) is an arbitrary double subject only to its IEEE contract",
                    "pre-state = the invariant: each weight is a finite double >= 0 that is either 0 or >= 1e-300 (below that sum(w)/n "
                    "underflows to 0 and log(0) = -inf: stated bound)", "|e_estimate| <= 1e300",
                    "reduce_sum modelled as a left fold (weights are non-negative, no cancellation)",
                    "a solver candidate is reported as a violation only if a hostile concrete input reproduces it on the real function"],
    "bounds": {"quick": "one step, 2 walkers, norb 2, every double for weights / fields / havocked intermediates; phaseless restricted+unrestricted, "
                        "CPMC fast / slow / nn / continuous one step",
               "thorough": "3 walkers, several dt"},
    "outside": "more than one step at a time (covered by induction on the invariant), n_walkers > 3, XLA re-association of sums",
}


class KilledFraction(c08.Coherence):
    """the killed-walker fraction every sampler entry point reports: with propagate(), QR, SR and the energy routines uninterpreted (so the
    weights after each block are ARBITRARY reals), the reported number is  sum_blocks (n_walkers - count_nonzero(weights)) / (n_sr_blocks *
    n_ene_blocks * n_walkers)  and lies in [0, 1] whatever the weights are (count_nonzero stays symbolic: a sum of if-then-else terms)."""
    check_id = "C09"
    assume_inverted_nonzero = False  # the count involves no quotient: block weight sums may be zero (extinction) as far as this obligation goes

    def __init__(self, args):
        super().__init__(args)
        self.name = "killed-fraction:" + self.name.split(":", 1)[1]

    def functions(self):
        return [f"ad_afqmc.sampling.sampler.{self.entry}", "ad_afqmc.sampling.sampler._block_scan (n_killed_walkers accounting)"]

    def call(self, **kw):
        import jax.numpy as jnp
        if self.restricted:
            C = kw["C"]
            wd = {"mo_coeff": C, "rdm1": jnp.array([C @ C.T, C @ C.T])}
            W = kw["Wu"]
        else:
            wd = {"mo_coeff": [kw["Cu"], kw["Cd"]], "rdm1": jnp.array([kw["Cu"] @ kw["Cu"].T, kw["Cd"] @ kw["Cd"].T])}
            W = [kw["Wu"], kw["Wd"]]
        hd = dict(self.hd0)
        pd = {"walkers": W, "weights": kw["weights"], "overlaps": kw["stale"], "e_estimate": kw["Es"], "pop_control_ene_shift": kw["Es"],
              "key": self.key, "n_killed_walkers": 0}
        s = self.sampler
        if self.entry == "propagate_phaseless":
            hd = self.ham.build_measurement_intermediates(hd, self.trial, wd)
            hd = self.ham.build_propagation_intermediates(hd, self.prop, self.trial, wd)
            e, pd = s.propagate_phaseless(self.ham, hd, self.prop, pd, self.trial, wd)
        else:
            obs = jnp.zeros_like(hd["h1"])
            e, pd = getattr(s, self.entry)(self.ham, hd, 0.0, obs, self.prop, pd, self.trial, wd)
        return pd["n_killed_walkers"]

    def relations(self, inp, out):
        x = out[()] if hasattr(out, "shape") else out
        if isinstance(x, (float, complex)):
            x = complex(x).real
            return [("killed_fraction_in_[0,1]", min(max(x, 0.0), 1.0), x)]
        x = Q.lift(x)
        clipped = qdom.ite(qdom.compare("lt", x, Q(0)), Q(0), qdom.ite(qdom.compare("gt", x, Q(1)), Q(1), x))
        n_prop = sum(1 for name, _ in self.interp.call_log if name == "propagate") if getattr(self, "interp", None) is not None else None
        expect = self.blocks[0] * self.blocks[1] * (1 if "nosr" in self.entry else self.blocks[2])
        rels = [("killed_fraction_in_[0,1]", clipped, x)]
        if n_prop is not None:
            rels.append(("propagate_entries_observed", Q(n_prop), Q(expect)))
        return rels


def cases(tier):
    out = [{"type": "phaseless", "check_id": "C09", "mode": "invariants", "restricted": False, "n_walkers": 2, "dt": 0.01},
           {"type": "phaseless", "check_id": "C09", "mode": "invariants", "restricted": True, "n_walkers": 2, "dt": 0.01}]
    if tier == "thorough":
        out += [{"type": "phaseless", "check_id": "C09", "mode": "invariants", "restricted": False, "n_walkers": 3, "dt": 0.5},
                {"type": "phaseless", "check_id": "C09", "mode": "invariants", "restricted": True, "n_walkers": 2, "dt": 1e-6}]
    out += cpmcf.cases(tier)
    for entry in c08.ENTRIES:
        out.append({"type": "killed", "entry": entry, "restricted": False, "blocks": [2, 2, 2]})
    out.append({"type": "killed", "entry": "propagate_phaseless", "restricted": True, "blocks": [1, 2, 3]})
    return out


def run(args, seed, known):
    if args["type"] == "killed":
        return engine.run_case(KilledFraction(args), seed=seed, known=known)
    return propf.run(args, seed, known) if args["type"] == "phaseless" else cpmcf.run(args, seed, known)


def replay(data):
    if data["case_args"]["type"] == "killed":
        return engine.replay_file(KilledFraction(data["case_args"]), data)
    return propf.replay(data) if data["case_args"]["type"] == "phaseless" else cpmcf.replay(data)
