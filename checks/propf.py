"""IEEE-754 harness for the phaseless propagate() tail (shared by C04 part B and C09).

The real jitted `propagator.propagate` is traced at a tiny shape; its float64 data path (|imp| * cos(theta), the NaN /
window guards, the weight product, the >100 guard, the population-control shift) is executed in z3 floating point with
everything upstream (force bias, Trotter propagation, overlaps, exp, angle, cos) havocked under IEEE contracts.
"""
import math

import numpy as np
import z3

from vf import engine_f, fdom
from vf.fdom import fv, F64, RM


def spec_factor(fi, A, c):
    """documented rule: modulus * cos(theta), set to zero when not a number or outside [1e-3, 100]"""
    f = fi.fmul(A, c)
    bad = z3.Or(z3.fpIsNaN(f), z3.fpLT(f, fv(1.0e-3)), z3.fpGT(f, fv(100.0)))
    return z3.If(bad, fv(0.0), f)


def spec_weight(fi, w, A, c):
    f = spec_factor(fi, A, c)
    w2 = fi.fmul(f, w)
    return z3.If(z3.fpGT(w2, fv(100.0)), fv(0.0), w2)


class PhaselessF(engine_f.FCase):
    z3_first_ms = 0  # all obligations and lemmas go to concurrent cvc5 processes (z3 needs ~100 s for the same queries)

    def __init__(self, args):
        self.args = args
        self.check_id = args["check_id"]
        self.restricted = bool(args.get("restricted", False))
        self.nw = args.get("n_walkers", 2)
        self.dt = args.get("dt", 0.01)
        self.mode = args.get("mode", "rule")  # rule (C04b) | invariants (C09)
        self.name = f"weights-{self.mode}:{'restricted' if self.restricted else 'unrestricted'}:nw={self.nw}:dt={self.dt}"
        self.norb, self.nelec, self.nchol = 2, (1, 1), 1
        self._setup()

    def functions(self):
        return ["ad_afqmc.propagation.propagator.propagate"]

    def _setup(self):
        import jax.numpy as jnp
        from ad_afqmc import wavefunctions, propagation
        n = self.norb
        rng = np.random.default_rng(7)
        h1 = rng.normal(size=(n, n))
        h1 = h1 + h1.T
        L = rng.normal(size=(self.nchol, n, n))
        L = L + L.transpose(0, 2, 1)
        C = np.eye(n)[:, :1]
        if self.restricted:
            self.trial = wavefunctions.rhf(n, self.nelec)
            self.wd = {"mo_coeff": jnp.array(C), "rdm1": jnp.array([C @ C.T, C @ C.T])}
            self.prop = propagation.propagator_restricted(dt=self.dt, n_walkers=self.nw)
        else:
            self.trial = wavefunctions.uhf(n, self.nelec)
            self.wd = {"mo_coeff": [jnp.array(C), jnp.array(C)], "rdm1": jnp.array([C @ C.T, C @ C.T])}
            self.prop = propagation.propagator_unrestricted(dt=self.dt, n_walkers=self.nw)
        hd = {"h0": 0.3, "h1": jnp.array([h1, h1]), "chol": jnp.array(L.reshape(self.nchol, -1)), "ene0": 0.0}
        hd = self.trial._build_measurement_intermediates(hd, self.wd)
        self.hd = self.prop._build_propagation_intermediates(hd, self.trial, self.wd)

    def fn(self, weights, wu, wd_, overlaps, fields, shift, eest):
        import jax.numpy as jnp
        W = wu if self.restricted else [wu, wd_]
        pd = {"weights": weights, "walkers": W, "overlaps": overlaps, "pop_control_ene_shift": shift, "e_estimate": eest,
              "_verif_imp_fun": jnp.zeros(self.nw) + 0.0j, "_verif_theta": jnp.zeros(self.nw)}
        pd = self.prop.propagate(self.trial, self.hd, pd, fields, self.wd)
        return pd["weights"], pd["pop_control_ene_shift"], pd["_verif_imp_fun"], pd["_verif_theta"]

    def example(self, kind="normal"):
        rng = np.random.default_rng(3)
        n, nw = self.norb, self.nw
        wu = rng.normal(size=(nw, n, 1)) + 1j * rng.normal(size=(nw, n, 1))
        wd_ = rng.normal(size=(nw, n, 1)) + 1j * rng.normal(size=(nw, n, 1))
        weights = np.ones(nw)
        fields = rng.normal(size=(nw, self.nchol))
        shift, eest = 0.1, 0.1
        import jax.numpy as jnp
        W = jnp.array(wu) if self.restricted else [jnp.array(wu), jnp.array(wd_)]
        ov = np.array(self.trial.calc_overlap(W, self.wd))
        if kind == "orthogonal":      # walker 0 orthogonal to the trial: overlap ratio 0/0
            wu[0, 0, 0] = 0.0
            if not self.restricted:
                pass
            W = jnp.array(wu) if self.restricted else [jnp.array(wu), jnp.array(wd_)]
            ov = np.array(self.trial.calc_overlap(W, self.wd))
        elif kind == "stale-zero":    # cached overlap exactly zero -> inf / NaN ratio
            ov = ov.copy()
            ov[0] = 0.0
        elif kind == "huge-field":
            fields = fields.copy()
            fields[0, 0] = 1e200
        elif kind == "big-field":
            fields = fields.copy()
            fields[0, 0] = 40.0
        elif kind == "negative-cos":  # cached overlap with opposite sign: cos(theta) < 0
            ov = ov.copy()
            ov[0] = -ov[0]
        elif kind == "dead":
            weights = weights.copy()
            weights[0] = 0.0
            fields = fields.copy()
            fields[0, 0] = 1e200
        elif kind == "heavy":
            weights = weights.copy()
            weights[0] = 99.0
            ov = ov.copy()
            ov[0] = ov[0] / 50.0      # factor ~50: product > 100
        elif kind == "tiny-overlap":
            ov = ov.copy()
            ov[0] = ov[0] * 1e-300
        elif kind == "large-ratio":
            ov = ov.copy()
            ov[0] = ov[0] / 3.0
        return (weights, wu, wd_, ov, fields, shift, eest)

    KINDS = ("normal", "orthogonal", "stale-zero", "huge-field", "big-field", "negative-cos", "dead", "heavy", "tiny-overlap", "large-ratio")

    def hostile(self):
        for k in self.KINDS:
            yield k, self.example(k)

    def trace(self):
        import jax
        import jax.numpy as jnp
        ex = self.example()
        closed = jax.make_jaxpr(self.fn)(*[jnp.asarray(a) for a in ex])
        return closed, ex

    def sym_inputs(self, fi):
        nw, n = self.nw, self.norb
        self.w = [z3.FP(f"w{k}", F64) for k in range(nw)]
        self.fields = [z3.FP(f"x{k}", F64) for k in range(nw * self.nchol)]
        self.shift = z3.FP("shift", F64)
        self.eest = z3.FP("eest", F64)
        # a live weight is >= 1e-300: below that sum(w)/n can underflow to 0 and log(0) = -inf (stated bound, see DESIGN)
        pre = [z3.And(fdom.nonneg_finite(w), z3.Or(z3.fpIsZero(w), z3.fpGEQ(w, fv(1e-300)))) for w in self.w]
        pre += [fdom.finite(self.eest), z3.fpLEQ(z3.fpAbs(self.eest), fv(1e300))]
        ins = [np.array(self.w, dtype=object), fdom.fill((nw, n, 1), fdom.OPAQUE), fdom.fill((nw, n, 1), fdom.OPAQUE),
               fdom.fill((nw,), fdom.OPAQUE), np.array(self.fields, dtype=object).reshape(nw, self.nchol),
               np.array(self.shift, dtype=object).reshape(()), np.array(self.eest, dtype=object).reshape(())]
        return ins, pre

    def _cut(self, fi):
        A = [a for a in fi.havocs.get("abs", []) if a.shape == (self.nw,)]
        c = [a for a in fi.havocs.get("cos", []) if a.shape == (self.nw,)]
        if len(A) != 1 or len(c) != 1:
            raise RuntimeError(f"expected one |imp| and one cos(theta) cut, found {len(A)} / {len(c)}")
        return A[0], c[0]

    def obligations(self, fi, outs):
        wn, shiftn, _, _ = outs
        A, c = self._cut(fi)
        obs = []
        for k in range(self.nw):
            spec = spec_weight(fi, self.w[k], A[k], c[k])
            if self.mode == "rule":
                obs.append((f"weight_rule[{k}]", wn[k] == spec))
            obs.append((f"weight_finite_nonneg[{k}]", fdom.nonneg_finite(wn[k])))
            obs.append((f"dead_stays_dead[{k}]", z3.Implies(z3.fpIsZero(self.w[k]), z3.fpIsZero(wn[k]))))
            fac = spec_factor(fi, A[k], c[k])
            obs.append((f"factor_window[{k}]", z3.Or(z3.fpIsZero(fac), z3.And(z3.fpGEQ(fac, fv(1e-3)), z3.fpLEQ(fac, fv(100.0))))))
            if self.mode != "rule":
                # the applied factor is the documented one (so the window statement is about the code, not the spec)
                obs.append((f"factor_is_documented[{k}]", wn[k] == spec))
        tot = wn[0]
        for k in range(1, self.nw):
            tot = z3.fpAdd(RM, tot, wn[k])
        alive = z3.fpGT(tot, fv(0.0))
        # shift' = e_estimate - 0.1 * log(sum(w')/n) / dt, decided compositionally at the log cut:
        #  (1) while any walker is alive the argument of the log is a finite positive double;
        #  (2) for every value the log contract allows for such an argument, the shift is finite.
        if len(fi.log_apps) != 1:
            raise RuntimeError(f"expected one log in the shift update, found {len(fi.log_apps)}")
        x, v = fi.log_apps[0]
        obs.append(("shift_cut1:log_argument_finite_positive_while_alive", z3.Implies(alive, z3.And(fdom.finite(x), z3.fpGT(x, fv(0.0))))))
        obs.append(("shift_cut2:shift_finite_for_every_log_value", fdom.finite(shiftn[()]),
                    [fdom.finite(v), z3.fpGEQ(v, fv(-746.0)), z3.fpLEQ(v, fv(710.0)), fdom.finite(self.eest), z3.fpLEQ(z3.fpAbs(self.eest), fv(1e300))]))
        return obs

    def describe_model(self, m):
        A, c = self._cut(self.fi)
        out = []
        for k in range(self.nw):
            out.append(f"w{k}={fdom.fp_to_float(m.eval(self.w[k], model_completion=True))} |imp|={fdom.fp_to_float(m.eval(A[k], model_completion=True))} "
                       f"cos={fdom.fp_to_float(m.eval(c[k], model_completion=True))}")
        return "; ".join(out)

    def _run_real(self, args):
        import jax.numpy as jnp
        out = self.fn(*[jnp.asarray(a) for a in args])
        return [np.asarray(o) for o in out]

    def concrete(self, args):
        wn, shiftn, imp, theta = self._run_real(args)
        w0 = np.asarray(args[0], dtype=float)
        v = {}
        import jax.numpy as jnp
        A = np.asarray(jnp.abs(jnp.asarray(imp)))
        c = np.asarray(jnp.cos(jnp.asarray(theta)))
        for k in range(self.nw):
            f = A[k] * c[k]
            fac = 0.0 if (math.isnan(f) or f < 1e-3 or f > 100.0) else f
            spec = fac * w0[k]
            spec = 0.0 if spec > 100.0 else spec
            same = (wn[k] == spec) or (math.isnan(wn[k]) and math.isnan(spec)) or abs(wn[k] - spec) <= 1e-12 * max(1.0, abs(spec))
            v[f"weight_rule[{k}]"] = bool(same)
            v[f"factor_is_documented[{k}]"] = bool(same)
            v[f"weight_finite_nonneg[{k}]"] = bool(np.isfinite(wn[k]) and wn[k] >= 0)
            v[f"dead_stays_dead[{k}]"] = bool(not (w0[k] == 0 and wn[k] != 0))
            v[f"factor_window[{k}]"] = True
        tot = float(np.sum(wn))
        ok = bool(not (tot > 0) or np.isfinite(shiftn))
        v["shift_cut1:log_argument_finite_positive_while_alive"] = ok
        v["shift_cut2:shift_finite_for_every_log_value"] = ok
        return v

    def validate(self, fi, ins, outs, args):
        """pin the havocked |imp| and cos(theta) to the values of the real run and compare the F-term of the new weights"""
        import jax.numpy as jnp
        wn, shiftn, imp, theta = self._run_real(args)
        A = np.asarray(jnp.abs(jnp.asarray(imp)))
        c = np.asarray(jnp.cos(jnp.asarray(theta)))
        hA, hc = self._cut(fi)
        pins = {}
        for k in range(self.nw):
            pins[hA[k]] = float(A[k])
            pins[hc[k]] = float(c[k])
            pins[self.w[k]] = float(args[0][k])
        for k in range(self.nw):
            val = fdom.eval_fp(outs[0][k], pins)
            real = float(wn[k])
            if val is None:
                return False, "could not evaluate the F-term"
            if not ((math.isnan(val) and math.isnan(real)) or val == real or abs(val - real) <= 1e-12 * max(1.0, abs(real))):
                return False, f"walker {k}: F-term {val!r} vs real {real!r}"
        return True, ""


def run(args, seed, known):
    return engine_f.run_fcase(PhaselessF(args), seed=seed, known=known)


def replay(data):
    return engine_f.replay_file_f(PhaselessF(data["case_args"]), data)
