"""C17 - Cholesky factorisations reproduce their input and stay differentiable.

(a) pyscf_interface.modified_cholesky (NumPy while-loop): PX on M = B B^T with symbolic B (every rank up to full) and a symbolic
    threshold; pivot choice (argmax) and the loop exit are solver-decided path splits; on every path the reconstruction error is
    bounded by the threshold element-wise.
(b) linalg_utils.modified_cholesky (lax.scan, argmax): the traced jaxpr is interpreted on symbolic B with path splits at the
    pivot searches; with nchol_max = rank the reconstruction is exact (x**0.5 is an atom s with s^2 = x, reduced symbolically);
    the JVP of reconstruct(chol(M)) along dM equals dM (finite, no zero denominator beyond the pivots themselves).
(c) the symmetrisation + reshape feeding it in propagate_phaseless_ad_1 gives the 4-fold symmetrised matrix (Q domain).
chunked_cholesky is not applicable (pyscf integrals).
"""
import itertools
import json
import os
import time
import traceback
from fractions import Fraction

import numpy as np
import z3

from vf import px, qdom, engine
from vf.explore import Explorer, Budget
from vf.px import SR, zr
from vf.qdom import Q
from vf.poly import P

META = {
    "level": "model_checking",
    "trusted": ["z3 5.1.0 (nonlinear real arithmetic)", "PX for the NumPy routine (np.zeros returns object arrays inside pyscf_interface; x**0.5 = s with s>=0, s*s=x)",
                "JAX tracing for the lax.scan routine; sqrt atoms reduced modulo s^2 = radicand"],
    "assumptions": ["A1 exact reals for floats", "M = B B^T (symmetric PSD by construction, any rank up to the number of columns of B)",
                    "threshold >= 1e-8: the NumPy routine adds 1e-10 to every pivot after the first, so its accuracy floor is ~1e-10 (stated bound)",
                    "JAX routine: the requested number of vectors equals the number of columns of B, and the pivots met are non-zero (generic rank)"],
    "bounds": {"quick": "NumPy routine: n = 1, 2 with every rank, n = 3 with rank 1; JAX routine: (n, r) in (2,1), (2,2), (3,1); JVP at (2,1), (3,1) (the JVP through a second pivot step divides by a constant zero in the interpreter and is not covered)",
               "thorough": "as quick, plus the symmetrisation at norb 3 (NumPy n = 3 rank 2 and JAX (3,2) do not finish: see cases())"},
    "outside": "n > 3; chunked_cholesky (pyscf integrals); floating-point pivot ties; rank-deficient input with more requested vectors than the rank",
}


class Runner:
    def __init__(self, name, args, known):
        self.args, self.known = args, known or {}
        self.res = {"case": name, "obligations": [], "violations": [], "inconclusive": [], "errors": [], "known": [], "samples": [],
                    "functions": [], "paths": 0}

    def check(self, label, asserts, variables, concrete, timeout=60000):
        fam = label.split("/")[0]
        if sum(1 for v in self.res["violations"] if v["label"].split("/")[0] == fam) >= 2:
            return
        t0 = time.time()
        s = z3.Solver()
        s.set("timeout", timeout)
        s.add(*asserts)
        r = str(s.check())
        ob = {"label": label, "status": r, "seconds": round(time.time() - t0, 3), "how": "NRA"}
        if len(self.res["samples"]) < 2:
            txt = s.to_smt2()
            self.res["samples"].append({"label": label, "smt2_head": txt[:1000], "smt2_bytes": len(txt)})
        if r == "sat":
            m = s.model()
            w = {}
            for v in variables:
                val = m.eval(v, model_completion=True)
                if z3.is_algebraic_value(val):
                    val = val.approx(20)
                w[str(v)] = [val.numerator_as_long(), val.denominator_as_long()]
            bad, detail = concrete(w)
            if bad:
                from vf.engine import VERIF
                d = os.path.join(VERIF, "replays")
                os.makedirs(d, exist_ok=True)
                safe = "".join(ch if ch.isalnum() or ch in "-_." else "_" for ch in f"C17_{self.res['case']}__{label}")
                path = os.path.join(d, safe + ".json")
                json.dump({"check": "C17", "case_args": self.args, "label": label, "witness": w, "detail": detail}, open(path, "w"), indent=1)
                key = f"{self.res['case']}:{fam}"
                v = {"label": label, "key": key, "replay": path, "detail": detail}
                if key in self.known:
                    self.res["known"].append(v)
                    ob["status"] = "known-finding"
                else:
                    self.res["violations"].append(v)
                    ob["status"] = "violated"
            else:
                ob["status"] = "spurious"
                self.res["errors"].append(f"{label}: model does not reproduce on the real code ({detail})")
        elif r != "unsat":
            self.res["inconclusive"].append(label)
        self.res["obligations"].append(ob)


def fr(w, n):
    a, b = w[n]
    return Fraction(a, b)


def run_numpy(R, args):
    """the real NumPy routine on object arrays of Q scalars (exact rational functions with sqrt atoms reduced modulo s^2 = x);
    comparisons are solver-decided path splits"""
    from ad_afqmc import pyscf_interface as pi
    n, r = args["n"], args["r"]
    R.res["functions"] = ["ad_afqmc.pyscf_interface.modified_cholesky"]
    Bn = [[f"b{i}{j}" for j in range(r)] for i in range(n)]
    variables = [z3.Real(x) for row in Bn for x in row] + [z3.Real("max_error")]
    err_z = z3.Real("max_error")

    def mat():
        B = [[Q(P.var(Bn[i][j])) for j in range(r)] for i in range(n)]
        M = np.empty((n, n), dtype=object)
        for i in range(n):
            for j in range(n):
                M[i, j] = sum((B[i][k] * B[j][k] for k in range(1, r)), B[i][0] * B[j][0])
        return M

    M0 = mat()
    tr = qdom.tz(qdom._real_value(sum((M0[i, i] for i in range(1, n)), M0[0, 0]), "trace"))
    pre = [err_z >= zr(Fraction(1, 10 ** 8)), tr > 0]

    def body():
        qdom.reset()
        M = mat()
        old = pi.np
        pi.np = px.ObjNP()
        try:
            return pi.modified_cholesky(M, max_error=Q(P.var("max_error"))), M
        finally:
            pi.np = old

    def concrete(w):
        B = np.array([[float(fr(w, f"b{i}{j}")) for j in range(r)] for i in range(n)])
        e = float(fr(w, "max_error"))
        M = B @ B.T
        L = pi.modified_cholesky(M, max_error=e)
        resid = np.abs(M - L.T @ L).max() if L.shape[0] else np.abs(M).max()
        return bool(resid > e * (1 + 1e-9) + 1e-13), f"max |M - L^T L| = {resid:.3e} > max_error = {e:.3e} with {L.shape[0]} vectors (B={B.tolist()})"

    ex = Explorer(pre=pre, max_paths=3000, variables=variables)
    k = 0
    for pc, (L, M) in ex.paths(body):
        k += 1
        nv = L.shape[0]
        conj = []
        for i in range(n):
            for j in range(i, n):
                rec = Q(0)
                for g in range(nv):
                    rec = rec + Q.lift(L[g, i]) * Q.lift(L[g, j])
                d = M[i, j] - rec
                e = Q(P.var("max_error"))
                conj.append(z3.And(qdom.tb_(qdom.compare("le", d, e)), qdom.tb_(qdom.compare("le", -d, e))))
        side = qdom.inverted_nonzero()
        facts = []
        for kk in range(len(qdom.ATOMS.vals)):
            facts += qdom.ATOMS.facts[kk]
        R.check(f"reconstruction_within_threshold/path{k}", pre + pc + side + facts + [z3.Not(z3.And(*conj))], variables, concrete, timeout=120000)
    R.res["paths"] = k
    if getattr(ex, "unproved_failures", 0):
        R.res["inconclusive"].append(f"{ex.unproved_failures} path(s) admitted after an unknown feasibility query ended in an exception of the code under test")


def run_jax(R, args):
    import jax
    import jax.numpy as jnp
    from ad_afqmc import linalg_utils
    from vf import jx
    n, r, jvp = args["n"], args["r"], bool(args.get("jvp"))
    R.res["functions"] = ["ad_afqmc.linalg_utils.modified_cholesky"]
    norb_dummy = 1

    def f(M):
        L = linalg_utils.modified_cholesky(M, norb_dummy, r)
        return jnp.einsum("gi,gj->ij", L, L)

    if jvp:
        closed = jax.make_jaxpr(lambda M, dM: jax.jvp(f, (M,), (dM,)))(jnp.eye(n), jnp.eye(n))
    else:
        closed = jax.make_jaxpr(f)(jnp.eye(n))
    R.res["traced"] = {"equations": jx.n_eqns(closed.jaxpr)}
    Bn = [[f"b{i}{j}" for j in range(r)] for i in range(n)]
    Dn = [[f"d{i}{j}" for j in range(r)] for i in range(n)]
    variables = [z3.Real(x) for row in Bn for x in row] + ([z3.Real(x) for row in Dn for x in row] if jvp else [])

    def mats():
        B = [[Q(P.var(Bn[i][j])) for j in range(r)] for i in range(n)]
        M = np.empty((n, n), dtype=object)
        for i in range(n):
            for j in range(n):
                M[i, j] = sum((B[i][k] * B[j][k] for k in range(1, r)), B[i][0] * B[j][0])
        dM = None
        if jvp:
            D = [[Q(P.var(Dn[i][j])) for j in range(r)] for i in range(n)]
            dM = np.empty((n, n), dtype=object)
            for i in range(n):
                for j in range(n):
                    dM[i, j] = sum((D[i][k] * B[j][k] + B[i][k] * D[j][k] for k in range(1, r)), D[i][0] * B[j][0] + B[i][0] * D[j][0])
        return M, dM

    def body():
        qdom.reset()
        it = jx.Interp()
        M, dM = mats()
        outs = it.run(closed, [M] + ([dM] if jvp else []))
        return outs, M, dM

    def concrete(w):
        B = np.array([[float(fr(w, f"b{i}{j}")) for j in range(r)] for i in range(n)])
        M = B @ B.T
        if jvp:
            D = np.array([[float(fr(w, f"d{i}{j}")) for j in range(r)] for i in range(n)])
            dM = D @ B.T + B @ D.T
            rec, drec = jax.jvp(f, (jnp.array(M),), (jnp.array(dM),))
            bad = not np.all(np.isfinite(drec)) or np.abs(np.asarray(drec) - dM).max() > 1e-6 * (1 + np.abs(dM).max())
            return bool(bad), f"jvp of the reconstruction {np.asarray(drec).tolist()} vs dM {dM.tolist()}"
        rec = np.asarray(f(jnp.array(M)))
        scale = np.sqrt(np.abs(np.outer(np.diag(M), np.diag(M))))  # exactness is scale free: compare relative to sqrt(M_ii M_jj)
        bad = not np.all(np.isfinite(rec)) or bool(np.any(np.abs(rec - M) > 1e-7 * scale + 1e-300))
        return bool(bad), f"reconstruction {rec.tolist()} vs M {M.tolist()} (B={B.tolist()})"

    # "asked for as many vectors as the rank": rank(M) = rank(B) = r, i.e. det(B^T B) != 0 (on the measure-zero set where B loses rank
    # the routine is asked for MORE vectors than the rank and divides 0/0, which is outside the statement)
    qdom.reset()
    Bq = [[Q(P.var(Bn[i][j])) for j in range(r)] for i in range(n)]
    gram = [[sum((Bq[i][a_] * Bq[i][b_] for i in range(1, n)), Bq[0][a_] * Bq[0][b_]) for b_ in range(r)] for a_ in range(r)]
    pre = [qdom.tz(qdom.det(gram).c[0]) != 0]
    ex = Explorer(pre=pre, max_paths=500, variables=variables)
    k = 0
    for pc, (outs, M, dM) in ex.paths(body):
        k += 1
        rec = outs[0]
        tgt = M
        if jvp:
            rec, tgt = outs[1], dM
        side_all = qdom.inverted_nonzero()
        dis_all = []
        for i in range(n):
            for j in range(n):
                dis, side = qdom.diff_terms(rec[i, j], tgt[i, j])
                dis_all += dis
                side_all += side
        lab = "jvp_equals_dM" if jvp else "exact_at_rank"
        if not dis_all:
            R.res["obligations"].append({"label": f"{lab}/path{k}", "status": "unsat", "seconds": 0.0, "how": "normal form"})
            continue
        R.check(f"{lab}/path{k}", pre + pc + side_all + [z3.Or(*dis_all)], variables, concrete, timeout=120000)
    R.res["paths"] = k
    if getattr(ex, "unproved_failures", 0):
        R.res["inconclusive"].append(f"{ex.unproved_failures} path(s) admitted after an unknown feasibility query ended in an exception of the code under test")


class Symmetrise(engine.Case):
    """the observable symmetrisation of propagate_phaseless_ad_1 (traced out of the sampler source) = (O + O^T(pq<->rs) + ...)/4"""
    check_id = "C17"

    def __init__(self, args):
        self.args = args
        self.norb = args.get("norb", 2)
        self.name = f"symmetrise:norb={self.norb}"

    def functions(self):
        return ["ad_afqmc.sampling.sampler.propagate_phaseless_ad_1 (symmetrisation + reshape feeding modified_cholesky)"]

    def inputs(self, V):
        n = self.norb
        from vf.jx import arr
        return {"O": arr((n, n, n, n), lambda i: V.r("o" + "".join(map(str, i))))}

    def call(self, **kw):
        import jax.numpy as jnp
        from ad_afqmc import sampling, hamiltonian, propagation, wavefunctions
        n = self.norb
        got = {}

        class _Stop(Exception):
            pass

        def capture(mat, norb, nchol_max):
            got["mat"] = mat
            raise _Stop()

        real_fn = sampling.linalg_utils.modified_cholesky
        sampling.linalg_utils.modified_cholesky = capture
        try:
            smp = sampling.sampler(1, 1, 1, 1)
            ham = hamiltonian.hamiltonian(n)
            trial = wavefunctions.rhf(n, (1, 1))
            prop = propagation.propagator_restricted(n_walkers=1)
            try:
                # the undecorated method: everything before the Cholesky call is executed, then the capture stops it
                smp.propagate_phaseless_ad_1.__wrapped__(smp, ham, {"chol": jnp.zeros((2, n * n)), "h1": jnp.zeros((2, n, n)), "h0": 0.0}, 0.0, kw["O"],
                                                         prop, {}, trial, {})
            except _Stop:
                pass
        finally:
            sampling.linalg_utils.modified_cholesky = real_fn
        return got["mat"]

    def relations(self, inp, out):
        n = self.norb
        O = inp["O"]
        rels = []
        for p, q, r, s in itertools.product(range(n), repeat=4):
            ref = (O[p, q, r, s] + O[r, s, p, q] + O[q, p, s, r] + O[s, r, q, p]) * Fraction(1, 4)
            rels.append((f"sym[{p}{q}{r}{s}]", out[p * n + q, r * n + s], ref))
        return rels


def cases(tier):
    out = [{"type": "numpy", "n": 1, "r": 1}, {"type": "numpy", "n": 2, "r": 1}, {"type": "numpy", "n": 2, "r": 2}, {"type": "numpy", "n": 3, "r": 1},
           {"type": "jax", "n": 2, "r": 1}, {"type": "jax", "n": 2, "r": 2}, {"type": "jax", "n": 3, "r": 1},
           {"type": "jax", "n": 2, "r": 1, "jvp": 1}, {"type": "jax", "n": 3, "r": 1, "jvp": 1}, {"type": "sym", "norb": 2}]
    if tier == "thorough":
        # measured and therefore not run: numpy n = 3 rank 2 (> 45 min of path feasibility queries in nonlinear real arithmetic) and jax n = 3
        # rank 2 (feasibility of the second-pivot branches comes back unknown); the thorough tier adds the symmetrisation at norb 3 instead
        out += [{"type": "sym", "norb": 3}]
    return out


def run(args, seed, known):
    if args["type"] == "sym":
        return engine.run_case(Symmetrise(args), seed=seed, known=known)
    name = ":".join(f"{k}={v}" for k, v in args.items())
    R = Runner(name, args, known)
    t0 = time.time()
    try:
        (run_numpy if args["type"] == "numpy" else run_jax)(R, args)
    except Budget as ex:
        R.res["inconclusive"].append(f"path budget: {ex}")
    except Exception as ex:
        R.res["errors"].append(f"{type(ex).__name__}: {ex}\n{traceback.format_exc()[-1500:]}")
    R.res["wall_s"] = round(time.time() - t0, 3)
    return R.res


def replay(data):
    if data["case_args"]["type"] == "sym":
        return engine.replay_file(Symmetrise(data["case_args"]), data)
    return {"violates": True, "summary": data.get("detail", ""), "witness": data.get("witness")}
