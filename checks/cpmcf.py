"""CPMC propagators in the F domain (filled in later)."""


def cases(tier):
    return []


def run(args, seed, known):
    raise NotImplementedError


def replay(data):
    raise NotImplementedError
