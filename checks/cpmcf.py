"""CPMC propagators in the F domain (C09): one inductive step of the weight invariant in IEEE-754.

The real jitted propagate() of propagator_cpmc / _slow / _nn / _nn_slow / _continuous is traced at a tiny shape; the float64 data path
of the weights (products with overlap ratios, the `< 1e-8` / `> 100` guards, the normalisation of the two field probabilities, the
population-control factor exp(dt * shift), the shift update) is executed in z3 floating point; everything upstream (one-body
propagation, determinants, Green's functions, incremental updates, erf, PRNG numbers, exp) is havocked under its IEEE contract.

Pre-state = the invariant itself: every weight is 0 or a finite double in [1e-300, 100]; the shift is finite with |dt * shift| <= 590,
or +inf while every weight is 0 (that is what the code's own shift update produces when the whole population died); |dt * e_estimate|
<= 500.  Obligations: every new weight is a finite double >= 0, a dead walker stays dead, the new shift is finite (and inside the
pre-state bound) while a walker is alive, and +inf - never NaN - when none is.

Hostile concrete states (each one is a state a real history reaches; `concrete` runs the REAL propagate() on it):
  normal            init_prop_data of a legitimate population
  sign-flip         a walker whose overlap changes sign in the first one-body half step (killed by the constraint)
  extinct           the state the REAL code leaves after a step in which every walker was killed (shift = +inf)
  double-constraint a walker with positive overlap for which BOTH auxiliary-field values of site 0 give a non-positive overlap
  heavy             weight 99 with a growth factor > 1
"""
import math

import numpy as np
import z3

from vf import engine_f, fdom
from vf.fdom import fv, F64, RM

PROPS = {"cpmc": "propagator_cpmc", "cpmc_slow": "propagator_cpmc_slow", "cpmc_nn": "propagator_cpmc_nn", "cpmc_nn_slow": "propagator_cpmc_nn_slow",
         "cpmc_continuous": "propagator_cpmc_continuous"}


class CpmcF(engine_f.FCase):
    check_id = "C09"
    timeout_s = 900  # per query; typical 2-50 s, up to ~120 s on a loaded machine
    z3_first_ms = 0  # z3 gives up on these mixed UF + FP queries (measured: > 120 s); cvc5 decides them in seconds, concurrently
    # linear algebra and the incremental Green's function machinery are havocked as whole calls (their results are arbitrary doubles)
    havoc_calls = ("calc_full_green_vmap", "calc_full_green", "calc_overlap_ratio_vmap", "update_greens_function_vmap", "_calc_overlap",
                   "calc_green_diagonal_vmap", "det", "inv", "solve", "slogdet", "_uniform")

    def __init__(self, args):
        self.args = args
        self.which = args["prop"]
        self.nw = args.get("n_walkers", 2)
        self.dt = args.get("dt", 0.05)
        self.U = args.get("u", 4.0)
        self.name = f"cpmc-weights:{PROPS[self.which]}:nw={self.nw}:dt={self.dt}"
        self.norb, self.nelec = 2, (1, 1)
        self._setup()

    def functions(self):
        return [f"ad_afqmc.propagation.{PROPS[self.which]}.propagate"] + (["ad_afqmc.propagation.propagator_cpmc.propagate_one_body"] if self.which in ("cpmc", "cpmc_nn") else [])

    def _setup(self):
        import jax.numpy as jnp
        import scipy.linalg
        from ad_afqmc import wavefunctions, propagation
        n = self.norb
        self.trial = wavefunctions.uhf_cpmc(n, self.nelec)
        C = np.array([[1.0], [0.2]]) / math.sqrt(1.04)  # non-uniform trial density: the one-body half step can change the sign of an overlap
        self.C = C[:, 0]
        self.wd = {"mo_coeff": [jnp.array(C), jnp.array(C)]}
        kw = {"neighbors": ((0, 1),)} if "nn" in self.which else {}
        self.prop = getattr(propagation, PROPS[self.which])(dt=self.dt, n_walkers=self.nw, **kw)
        K = np.array([[0.0, -1.0], [-1.0, 0.0]])
        A = scipy.linalg.expm(-self.dt * K / 2.0)
        self.A = A
        g = math.acosh(math.exp(self.dt * self.U / 2.0))
        c = math.exp(-self.dt * self.U / 2.0)
        self.hs = c * np.array([[math.exp(g), math.exp(-g)], [math.exp(-g), math.exp(g)]])
        self.hd = {"exp_h1": jnp.array([A, A]), "hs_constant": jnp.array(math.sqrt(self.dt * self.U))}

    def fn(self, weights, wu, wd_, overlaps, rns, shift, eest):
        import jax
        import jax.numpy as jnp
        W = [wu, wd_]
        pd = {"weights": weights, "walkers": W, "overlaps": overlaps, "pop_control_ene_shift": shift, "e_estimate": eest,
              "key": jax.random.PRNGKey(11)}
        if self.which != "cpmc_continuous":
            pd["greens"] = self.trial.calc_full_green_vmap(W, self.wd)
        if "nn" in self.which:
            pd["hs_constant_onsite"], pd["hs_constant_nn"] = jnp.array(self.hs), jnp.array(self.hs)
        else:
            pd["hs_constant"] = jnp.array(self.hs)
        pd = self.prop.propagate(self.trial, self.hd, pd, rns, self.wd)
        if getattr(self, "_full", False):
            return pd["weights"], pd["pop_control_ene_shift"], pd["overlaps"], pd["walkers"][0], pd["walkers"][1]
        return pd["weights"], pd["pop_control_ene_shift"], pd["overlaps"]

    # ---- hostile states ----------------------------------------------------------------------------------------------------
    def _legit(self):
        rng = np.random.default_rng(5)
        nw, n = self.nw, self.norb
        wu = 1.0 + 0.3 * rng.normal(size=(nw, n, 1))
        wd_ = 1.0 + 0.3 * rng.normal(size=(nw, n, 1))
        return wu, wd_

    def _ov(self, wu, wd_):
        import jax.numpy as jnp
        return np.asarray(self.trial.calc_overlap([jnp.array(wu), jnp.array(wd_)], self.wd)).real.astype(float)

    def example(self, kind="normal"):
        nw, n = self.nw, self.norb
        wu, wd_ = self._legit()
        weights = np.ones(nw)
        rns = np.random.default_rng(9).normal(size=(nw, n))
        shift, eest = 0.1, 0.1
        Ainv = np.linalg.inv(self.A)
        if kind == "sign-flip":
            # overlap 0.01 > 0 now, < 0 after exp(-dt K/2) is applied (killed by the constraint in the first half step)
            wu[0, :, 0] = [0.1, -0.45]
        elif kind == "extinct":
            # every walker changes the sign of its overlap in the first half step; the REAL step is run once and the state it leaves
            # (all weights 0, shift +inf) is the hostile pre-state
            for k in range(nw):
                wu[k, :, 0] = [0.1 + 0.01 * k, -0.45 - 0.045 * k]
            ov = self._ov(wu, wd_)
            self._full = True
            try:
                w1, s1, o1, wu1, wd1 = self._run_real((weights, wu, wd_, ov, rns, shift, eest))
            finally:
                self._full = False
            return (np.asarray(w1, dtype=float), np.asarray(wu1, dtype=float), np.asarray(wd1, dtype=float), np.asarray(o1, dtype=float), rns, float(s1), eest)
        elif kind == "double-constraint":
            # after the half step: psi = (5, -20) for both spins; trial (1, 0.2): overlap > 0, G_00 = 5: both field values of site 0
            # make one spin factor of the overlap ratio negative
            for arr in (wu, wd_):
                arr[0, :, 0] = Ainv @ np.array([5.0, -20.0])
        elif kind == "heavy":
            weights = weights.copy()
            weights[0] = 99.0
            shift = 2.0
        ov = self._ov(wu, wd_)
        return (weights, wu, wd_, ov, rns, shift, eest)

    KINDS = ("normal", "sign-flip", "extinct", "double-constraint", "heavy")

    def hostile(self):
        for k in self.KINDS:
            yield k, self.example(k)

    def trace(self):
        import jax
        import jax.numpy as jnp
        ex = self.example()
        closed = jax.make_jaxpr(self.fn)(*[jnp.asarray(a) for a in ex])
        return closed, ex

    # ---- symbolic pre-state ---------------------------------------------------------------------------------------------------
    def sym_inputs(self, fi):
        nw, n = self.nw, self.norb
        fi.uf_add = True
        self.w = [z3.FP(f"w{k}", F64) for k in range(nw)]
        self.shift = z3.FP("shift", F64)
        self.eest = z3.FP("eest", F64)
        lim_s, lim_e = 590.0 / self.dt, 500.0 / self.dt
        pre = [z3.Or(z3.fpIsZero(w), z3.And(fdom.nonneg_finite(w), z3.fpGEQ(w, fv(1e-300)), z3.fpLEQ(w, fv(100.0)))) for w in self.w]
        all_dead = z3.And(*[z3.fpIsZero(w) for w in self.w])
        pre.append(z3.Or(z3.And(fdom.finite(self.shift), z3.fpLEQ(z3.fpAbs(self.shift), fv(lim_s))),
                         z3.And(z3.fpIsInf(self.shift), z3.fpIsPositive(self.shift), all_dead)))
        pre += [fdom.finite(self.eest), z3.fpLEQ(z3.fpAbs(self.eest), fv(lim_e))]
        ins = [np.array(self.w, dtype=object), fdom.fill((nw, n, 1), fdom.OPAQUE), fdom.fill((nw, n, 1), fdom.OPAQUE),
               fi.havoc(_Aval((nw,)), "cached_overlap"), fi.havoc(_Aval((nw, n)), "gaussian"),
               np.array(self.shift, dtype=object).reshape(()), np.array(self.eest, dtype=object).reshape(())]
        return ins, pre

    def obligations(self, fi, outs):
        wn, shiftn, _ = outs
        obs = []
        for k in range(self.nw):
            obs.append((f"weight_finite_nonneg[{k}]", fdom.nonneg_finite(wn[k])))
            obs.append((f"dead_stays_dead[{k}]", z3.Implies(z3.fpIsZero(self.w[k]), z3.fpIsZero(wn[k]))))
            obs.append((f"weight_at_most_100[{k}]", z3.Or(z3.fpIsNaN(wn[k]), z3.fpLEQ(wn[k], fv(100.0)))))
        tot = wn[0]
        for k in range(1, self.nw):
            tot = fi.fadd(tot, wn[k])
        alive = z3.fpGT(tot, fv(0.0))
        if not fi.log_apps:
            raise RuntimeError("no log found (shift update)")
        x, v = fi.log_apps[-1]  # the shift update is the last thing propagate() does; earlier logs belong to havocked upstream code
        clean = z3.And(*[fdom.nonneg_finite(wn[k]) for k in range(self.nw)])
        # the argument of the log: finite and positive while a walker is alive (given finite non-negative new weights that are 0 or >= 1e-300)
        live_ok = z3.And(*[z3.Or(z3.fpIsZero(wn[k]), z3.fpGEQ(wn[k], fv(1e-300))) for k in range(self.nw)])
        obs.append(("new_weights_zero_or_at_least_1e-300", z3.Implies(clean, live_ok)))
        obs.append(("shift_cut1:log_argument_finite_positive_while_alive", z3.Implies(z3.And(clean, live_ok, alive), z3.And(fdom.finite(x), z3.fpGT(x, fv(0.0))))))
        lim_s = 590.0 / self.dt
        obs.append(("shift_cut2:shift_finite_and_in_bound_for_every_log_value", z3.And(fdom.finite(shiftn[()]), z3.fpLEQ(z3.fpAbs(shiftn[()]), fv(lim_s))),
                    [fdom.finite(v), z3.fpGEQ(v, fv(-746.0)), z3.fpLEQ(v, fv(710.0)), fdom.finite(self.eest), z3.fpLEQ(z3.fpAbs(self.eest), fv(500.0 / self.dt))]
                    + list(self._shift_defs(fi))))
        return obs

    def _shift_defs(self, fi):
        # the constraints that define the products / quotients feeding the shift (uninterpreted functions with their lemma instances)
        return [c for c in fi.constraints]

    def describe_model(self, m):
        out = []
        for k in range(self.nw):
            out.append(f"w{k}={fdom.fp_to_float(m.eval(self.w[k], model_completion=True))}")
        out.append(f"shift={fdom.fp_to_float(m.eval(self.shift, model_completion=True))}")
        return "; ".join(out)

    def _run_real(self, args):
        import jax.numpy as jnp
        out = self.fn(*[jnp.asarray(a) for a in args])
        return [np.asarray(o) for o in out]

    def concrete(self, args):
        wn, shiftn, _ = self._run_real(args)
        w0 = np.asarray(args[0], dtype=float)
        v = {}
        for k in range(self.nw):
            v[f"weight_finite_nonneg[{k}]"] = bool(np.isfinite(wn[k]) and wn[k] >= 0)
            v[f"dead_stays_dead[{k}]"] = bool(not (w0[k] == 0 and not wn[k] == 0))
            v[f"weight_at_most_100[{k}]"] = bool(np.isnan(wn[k]) or wn[k] <= 100.0)
        clean = bool(np.all(np.isfinite(wn)) and np.all(wn >= 0))
        tot = float(np.sum(wn)) if clean else float("nan")
        v["new_weights_zero_or_at_least_1e-300"] = bool(not clean or np.all((wn == 0) | (wn >= 1e-300)))
        ok = bool(not (clean and tot > 0) or np.isfinite(shiftn))
        v["shift_cut1:log_argument_finite_positive_while_alive"] = ok
        v["shift_cut2:shift_finite_and_in_bound_for_every_log_value"] = ok
        return v


class _Aval:
    def __init__(self, shape):
        self.shape, self.dtype = shape, np.dtype("float64")


def cases(tier):
    out = [{"type": "cpmc", "prop": p} for p in PROPS]
    if tier == "thorough":
        out += [{"type": "cpmc", "prop": p, "dt": 0.5, "u": 8.0} for p in ("cpmc", "cpmc_nn", "cpmc_continuous")]
        out += [{"type": "cpmc", "prop": "cpmc", "n_walkers": 3, "dt": 0.005}]
    return out


def run(args, seed, known):
    return engine_f.run_fcase(CpmcF(args), seed=seed, known=known)


def replay(data):
    return engine_f.replay_file_f(CpmcF(data["case_args"]), data)
