"""C05 - free projection: field average = exp(-dt (H - ene0)) to O(dt^2), with exact norm bookkeeping.  Lemma chain, each lemma
a solver obligation on the real traced code:
 L1 (graded domain) the un-normalised walker produced by propagate_free before re-orthonormalisation (_apply_trotprop +
    _multiply_constant, read with the trivial QR instance Q=A, R=I), times the accumulated norm, has the exact Gaussian average
    (1 - dt (H - ene0)) phi through s^3, for any rdm1 (mean-field shift), both spins, per-spin constants.
 L2 (C13) overlap(QR) = overlap(Q) * prod diag R per spin: qr_vmap_uhf's norm factors.
 L3 (Q domain) bookkeeping of propagate_free with QR havocked (ANY Q and upper-triangular R): norms' = norms * prod diag R_up *
    prod diag R_dn, overlaps' = overlap(Q) * norms', normed_overlaps' = overlap(Q).  Pre-state norms arbitrary => inductive over steps.
 L4 (Q domain) _apply_trotprop_det = exp_h1 (sum_{k<n} V^k / k!) exp_h1 for n_exp_terms = 2..6 (Taylor truncation).
 L5 (Q domain) sampler._block_scan_free: block energy = sum(E_L * overlap) / sum(overlap), block weight = sum(overlap).
"""
from fractions import Fraction
import math

import numpy as np

from vf import engine, engine_g, fock, qdom, gdom
from vf.gdom import G
from vf.jx import arr, obj
from vf.qdom import Q
from . import common as cm

META = {
    "level": "model_checking",
    "trusted": ["z3 5.1.0", "JAX tracing (A6), dt traced under jax.disable_jit for L1", "det/inv/expm/qr contract stubs (A2)", "exact Gaussian moments",
                "PRNG and exp uninterpreted in L5 (A3)"],
    "assumptions": ["A1 reals for floats", "A2 stubs; in L3/L5 the QR output is havocked (any Q, any upper-triangular R), a superset of the contract",
                    "series in s = sqrt(dt) truncated at s^3", "both spin channels non-empty"],
    "bounds": {"quick": "L1: uhf (2;1,1;1) and (3;2,1;1); L3: 2 walkers (3;2,1); L4: norb 2,3, n_exp_terms 2..6; L5: 2 walkers, 1 step, 1 Cholesky matrix",
               "thorough": "L1 adds (3;1,1;2) and noci"},
    "outside": "orders >= dt^2, LAPACK's QR itself, n_prop_steps > 1 inside the estimator lemma (covered by L3's induction)",
}


class FreeAvg(engine_g.GCase):
    check_id = "C05"
    order = 3
    claim_orders = (0, 1, 2, 3)
    validate_s0 = Fraction(1, 32)
    stubs = dict(det=True, inv=True, expm=True, qr=True, eigh=False)

    def __init__(self, args):
        self.args = args
        self.kind = cm.KINDS[args.get("kind", "uhf")]
        self.norb, self.nelec, self.nchol = args["norb"], tuple(args["nelec"]), args["nchol"]
        self.nf = self.nchol
        self.opt = args.get("opt", {"ident": 1})
        self.name = f"free-average:{self.kind.name}:{cm.shape_tag(self.norb, self.nelec, self.nchol)}"
        from ad_afqmc import wavefunctions
        self.trial = self.kind.make(wavefunctions, self.norb, self.nelec, self.opt)

    def functions(self):
        return ["ad_afqmc.propagation.propagator_unrestricted.propagate_free", "ad_afqmc.propagation.propagator_unrestricted._apply_trotprop",
                "ad_afqmc.propagation.propagator_unrestricted._multiply_constant", "ad_afqmc.propagation.propagator_unrestricted._build_propagation_intermediates"]

    def inputs(self, V):
        n = self.norb
        d = {"dt": arr((), lambda i: V.s(2)), "x": arr((self.nchol,), lambda i: V.x(i[0])),
             "Wu": cm.walker(V, "wu", n, self.nelec[0]), "Wd": cm.walker(V, "wd", n, self.nelec[1])}
        d.update(cm.ham_inputs(V, n, self.nchol, spin_dep=True))
        d["rdm1"] = np.stack([cm.symm(V, "ra", n), cm.symm(V, "rb", n)])
        d["ene0"] = arr((), lambda i: V.r("ene0"))
        d["norm0"] = arr((), lambda i: V.c("nrm"))
        d.update(self.kind.params(V, n, self.nelec, self.opt))
        return d

    BASE = ("dt", "x", "Wu", "Wd", "h0", "h1", "chol", "rdm1", "ene0", "norm0")

    def call(self, **kw):
        import jax
        import jax.numpy as jnp
        from ad_afqmc import propagation
        p = {k: v for k, v in kw.items() if k not in self.BASE}
        with jax.disable_jit():
            prop = propagation.propagator_unrestricted(dt=kw["dt"], n_walkers=1)
            wd = self.kind.wave_data(p)
            wd["rdm1"] = kw["rdm1"]
            hd = {"h0": kw["h0"], "h1": kw["h1"], "chol": kw["chol"], "ene0": kw["ene0"]}
            hd = self.trial._build_measurement_intermediates(hd, wd)
            hd = prop._build_propagation_intermediates(hd, self.trial, wd)
            W = [kw["Wu"][None], kw["Wd"][None]]
            pd = {"walkers": W, "norms": kw["norm0"][None], "overlaps": jnp.zeros(1) + 0j, "normed_overlaps": jnp.zeros(1) + 0j}
            pd = prop.propagate_free(self.trial, hd, pd, kw["x"][None], wd)
            # gauge-invariant read-out: amplitudes of  norm * |W_up>|W_dn>  in the occupation-number basis (products of minors), so that
            # the result does not depend on which valid QR factorisation was used
            Au, Ad, nrm = pd["walkers"][0][0], pd["walkers"][1][0], pd["norms"][0]
            amps = []
            for ru, rd in self._rows():
                amps.append(nrm * jnp.linalg.det(Au[jnp.array(ru), :]) * jnp.linalg.det(Ad[jnp.array(rd), :]))
            return jnp.stack(amps)

    def _rows(self):
        import itertools
        n = self.norb
        return [(list(a), list(b)) for a in itertools.combinations(range(n), self.nelec[0]) for b in itertools.combinations(range(n), self.nelec[1])]

    def _mask(self, ru, rd):
        m = 0
        for p_ in ru:
            m |= 1 << p_
        for p_ in rd:
            m |= 1 << (self.norb + p_)
        return m

    def _consts(self, inp):
        return {k: np.vectorize(lambda g: g.const() if isinstance(g, G) else g, otypes=[object])(v) for k, v in inp.items() if k not in ("dt", "x")}

    def relations(self, inp, out):
        amps = out
        q = self._consts(inp)
        n = self.norb
        phi = fock.slater(n, q["Wu"], q["Wd"], Q(1))
        H = fock.apply_H(n, q["h0"][()], q["h1"], cm.chol3(q, n), phi)
        e0 = q["ene0"][()]
        n0 = q["norm0"][()]
        phin = {self._mask(ru, rd): amps[k] for k, (ru, rd) in enumerate(self._rows())}
        rels = []
        for I in sorted(set(phin) | set(phi) | set(H)):
            lhs = phin[I].gauss() if I in phin else {}
            a = phi.get(I, Q(0))
            b = H.get(I, Q(0)) - e0 * a
            rels.append((f"component[{I:0{2 * n}b}]", lhs, {0: n0 * a, 2: -(n0 * b)}))
        return rels

    def residual(self, inp, out, s, vals, rerun=None):
        from numpy.polynomial.hermite_e import hermegauss
        import itertools
        nodes, wts = hermegauss(10)
        wts = wts / np.sqrt(2 * np.pi)
        q = {k: v for k, v in inp.items() if k not in ("dt", "x")}
        n = self.norb
        phi = fock.slater(n, q["Wu"], q["Wd"], 1.0)
        H = fock.apply_H(n, complex(q["h0"][()]), q["h1"], cm.chol3(q, n), phi)
        e0, n0 = complex(q["ene0"][()]), complex(q["norm0"][()])
        acc = {}
        for combo in itertools.product(range(len(nodes)), repeat=self.nchol):
            xs = [float(nodes[i]) for i in combo]
            w = float(np.prod([wts[i] for i in combo]))
            _, o = rerun(xs)
            for k, (ru, rd) in enumerate(self._rows()):
                I = self._mask(ru, rd)
                acc[I] = acc.get(I, 0j) + w * complex(o[k])
        dt = s * s
        return {f"component[{I:0{2 * n}b}]": acc.get(I, 0j) - n0 * (complex(phi.get(I, 0)) - dt * (complex(H.get(I, 0)) - e0 * complex(phi.get(I, 0))))
                for I in set(acc) | set(phi)}


class Bookkeeping(engine.Case):
    check_id = "C05"
    stubs = dict(det=True, inv=True, expm=True, qr=True, eigh=False)
    n_validate = 0

    def __init__(self, args):
        self.args = args
        self.kind = cm.KINDS[args.get("kind", "uhf")]
        self.norb, self.nelec, self.nchol, self.nw = args["norb"], tuple(args["nelec"]), 1, args.get("n_walkers", 2)
        self.opt = args.get("opt", {})
        self.name = f"bookkeeping:{self.kind.name}:{cm.shape_tag(self.norb, self.nelec, self.nchol)}:nw={self.nw}"
        from ad_afqmc import wavefunctions, propagation
        self.trial = self.kind.make(wavefunctions, self.norb, self.nelec, self.opt)
        self.prop = propagation.propagator_unrestricted(dt=0.01, n_walkers=self.nw, n_exp_terms=2)
        self._setup()

    def _setup(self):
        import jax.numpy as jnp
        n = self.norb
        rng = np.random.default_rng(5)
        h1 = np.round(rng.normal(size=(n, n)), 2)
        h1 = h1 + h1.T
        L = np.round(rng.normal(size=(self.nchol, n, n)), 2)
        L = L + L.transpose(0, 2, 1)
        self.hd0 = {"h0": 0.25, "h1": jnp.array([h1, h1]), "chol": jnp.array(L.reshape(self.nchol, -1)), "ene0": -0.5}
        self.rdm1 = jnp.array([np.eye(n) * 0.5, np.eye(n) * 0.25])

    def functions(self):
        return ["ad_afqmc.propagation.propagator_unrestricted.propagate_free", "ad_afqmc.propagation.propagator_unrestricted._orthogonalize_walkers",
                "ad_afqmc.linalg_utils.qr_vmap_uhf"]

    def inputs(self, V):
        n, nw = self.norb, self.nw
        from .c13 import upper
        d = {"Wu": arr((nw, n, self.nelec[0]), lambda i: V.c(f"wu{i[0]}_{i[1]}{i[2]}")), "Wd": arr((nw, n, self.nelec[1]), lambda i: V.c(f"wd{i[0]}_{i[1]}{i[2]}")),
             "Qu": arr((nw, n, self.nelec[0]), lambda i: V.c(f"qu{i[0]}_{i[1]}{i[2]}")), "Qd": arr((nw, n, self.nelec[1]), lambda i: V.c(f"qd{i[0]}_{i[1]}{i[2]}")),
             "Ru": np.stack([upper(V, f"ru{w}", self.nelec[0]) for w in range(nw)]), "Rd": np.stack([upper(V, f"rd{w}", self.nelec[1]) for w in range(nw)]),
             "norms": arr((nw,), lambda i: V.c(f"nrm{i[0]}")), "fields": arr((nw, self.nchol), lambda i: V.r(f"x{i[0]}_{i[1]}"))}
        d.update(self.kind.params(V, n, self.nelec, self.opt))
        return d

    BASE = ("Wu", "Wd", "Qu", "Qd", "Ru", "Rd", "norms", "fields")

    def prepare_interp(self, it, inp):
        nw = self.nw
        one = lambda k: arr((k, k), lambda i: Q(1 if i[0] == i[1] else 0))
        first = [(inp["Qu"][w], inp["Ru"][w]) for w in range(nw)] + [(inp["Qd"][w], inp["Rd"][w]) for w in range(nw)]
        # second QR inside propagate_free acts on the already orthonormal walkers: contract instance (Q, I)
        second = [(inp["Qu"][w], one(self.nelec[0])) for w in range(nw)] + [(inp["Qd"][w], one(self.nelec[1])) for w in range(nw)]
        it.qr_queue = first + second

    def call(self, **kw):
        import jax.numpy as jnp
        p = {k: v for k, v in kw.items() if k not in self.BASE}
        wd = self.kind.wave_data(p)
        wd["rdm1"] = self.rdm1
        hd = self.trial._build_measurement_intermediates(dict(self.hd0), wd)
        hd = self.prop._build_propagation_intermediates(hd, self.trial, wd)
        pd = {"walkers": [kw["Wu"], kw["Wd"]], "norms": kw["norms"], "overlaps": jnp.zeros(self.nw) + 0j, "normed_overlaps": jnp.zeros(self.nw) + 0j}
        pd = self.prop.propagate_free(self.trial, hd, pd, kw["fields"], wd)
        ovQ = self.trial.calc_overlap([kw["Qu"], kw["Qd"]], wd)
        return pd["norms"], pd["overlaps"], pd["normed_overlaps"], pd["walkers"][0], pd["walkers"][1], ovQ

    def relations(self, inp, out):
        norms, ov, nov, Wu, Wd, ovQ = out
        rels = []
        for w in range(self.nw):
            du = Q(1)
            for k in range(self.nelec[0]):
                du = du * inp["Ru"][w][k, k]
            dd = Q(1)
            for k in range(self.nelec[1]):
                dd = dd * inp["Rd"][w][k, k]
            rels.append((f"norms[{w}]", norms[w], inp["norms"][w] * du * dd))
            rels.append((f"overlaps[{w}]", ov[w], ovQ[w] * inp["norms"][w] * du * dd))
            rels.append((f"normed_overlaps[{w}]", nov[w], ovQ[w]))
            for idx in np.ndindex(Wu[w].shape):
                rels.append((f"walker_up[{w}]{list(idx)}", Wu[w][idx], inp["Qu"][w][idx]))
            for idx in np.ndindex(Wd[w].shape):
                rels.append((f"walker_dn[{w}]{list(idx)}", Wd[w][idx], inp["Qd"][w][idx]))
        return rels


class Taylor(engine.Case):
    check_id = "C05"

    def __init__(self, args):
        self.args = args
        self.norb, self.nocc, self.nexp = args["norb"], args["nocc"], args["n_exp_terms"]
        self.name = f"taylor:norb={self.norb}:nocc={self.nocc}:n_exp_terms={self.nexp}"
        from ad_afqmc import propagation
        self.prop = propagation.propagator_unrestricted(dt=0.01, n_walkers=1, n_exp_terms=self.nexp)

    def functions(self):
        return ["ad_afqmc.propagation.propagator._apply_trotprop_det"]

    def inputs(self, V):
        n = self.norb
        return {"E": cm.real_mat(V, "e", (n, n)), "Vm": arr((n, n), lambda i: V.c(f"v{i[0]}{i[1]}")), "W": cm.walker(V, "w", n, self.nocc)}

    def call(self, **kw):
        return self.prop._apply_trotprop_det(kw["E"], kw["Vm"], kw["W"])

    def relations(self, inp, out):
        E, Vm, W = inp["E"], inp["Vm"], inp["W"]
        x = cm.matmul(E, W)
        acc = x
        term = x
        for k in range(1, self.nexp):
            term = cm.matmul(Vm, term)
            f = Fraction(1, math.factorial(k))
            acc = acc + np.vectorize(lambda t: t * f, otypes=[object])(term)
        ref = cm.matmul(E, acc)
        return [(f"walker{list(idx)}", out[idx], ref[idx]) for idx in np.ndindex(ref.shape)]


class Estimator(engine.Case):
    """sampler._block_scan_free: block energy = sum(E_L * overlap)/sum(overlap) on the returned state (PRNG / exp uninterpreted)"""
    check_id = "C05"
    stubs = dict(det=True, inv=True, expm=True, qr=True, eigh=False, random=True)
    n_validate = 0

    def __init__(self, args):
        self.args = args
        self.norb, self.nelec, self.nchol, self.nw = 2, (1, 1), 1, 2
        self.name = "estimator:_block_scan_free:uhf:(2;1,1;1):nw=2"
        from ad_afqmc import wavefunctions, propagation, sampling
        self.trial = wavefunctions.uhf(self.norb, self.nelec)
        self.prop = propagation.propagator_unrestricted(dt=0.01, n_walkers=self.nw, n_exp_terms=2)
        self.sampler = sampling.sampler(n_prop_steps=1, n_ene_blocks=1, n_sr_blocks=1, n_blocks=1)
        import jax
        self.key = jax.random.PRNGKey(0)
        Bookkeeping._setup(self)

    def functions(self):
        return ["ad_afqmc.sampling.sampler._block_scan_free", "ad_afqmc.sampling.sampler._step_scan_free"]

    def inputs(self, V):
        n, nw = self.norb, self.nw
        from .c13 import upper
        # the incoming walkers do not matter to the estimator (the step's QR output is havocked): concrete
        return {"Wu": arr((nw, n, 1), lambda i: Q((Fraction(1 + i[0] + 2 * i[1], 3), Fraction(1, 2)))), "Wd": arr((nw, n, 1), lambda i: Q((Fraction(2 - i[0] + i[1], 5), Fraction(-1, 3)))),
                "Qu": arr((nw, n, 1), lambda i: V.c(f"qu{i[0]}_{i[1]}")), "Qd": arr((nw, n, 1), lambda i: V.c(f"qd{i[0]}_{i[1]}")),
                "Ru": np.stack([upper(V, f"ru{w}", 1) for w in range(nw)]), "Rd": np.stack([upper(V, f"rd{w}", 1) for w in range(nw)]),
                "norms": arr((nw,), lambda i: V.c(f"nrm{i[0]}")), "Cu": cm.ident_cols(V, n, 1), "Cd": cm.ident_cols(V, n, 1, offset=0)}

    prepare_interp = Bookkeeping.prepare_interp

    def call(self, **kw):
        import jax
        import jax.numpy as jnp
        wd = {"mo_coeff": [kw["Cu"], kw["Cd"]], "rdm1": self.rdm1}
        hd = self.trial._build_measurement_intermediates(dict(self.hd0), wd)
        hd = self.prop._build_propagation_intermediates(hd, self.trial, wd)
        pd = {"walkers": [kw["Wu"], kw["Wd"]], "norms": kw["norms"], "overlaps": jnp.zeros(self.nw) + 0j, "normed_overlaps": jnp.zeros(self.nw) + 0j,
              "key": self.key}
        pd, (pd_tr, be, bw) = self.sampler._block_scan_free(pd, None, hd, self.prop, self.trial, wd)
        E = self.trial.calc_energy(pd["walkers"], hd, wd)
        return be, bw, E, pd["overlaps"]

    def relations(self, inp, out):
        be, bw, E, ov = out
        num = ov[0] * E[0]
        den = ov[0]
        for w in range(1, self.nw):
            num = num + ov[w] * E[w]
            den = den + ov[w]
        return [("block_weight", bw[()], den), ("block_energy", be[()] * den, num)]


def cases(tier):
    out = [{"type": "avg", "norb": 2, "nelec": [1, 1], "nchol": 1}, {"type": "avg", "norb": 3, "nelec": [2, 1], "nchol": 1},
           {"type": "book", "norb": 3, "nelec": [2, 1], "n_walkers": 2}, {"type": "est"}]
    for nexp in range(2, 7):
        out.append({"type": "taylor", "norb": 2, "nocc": 1, "n_exp_terms": nexp})
    out.append({"type": "taylor", "norb": 3, "nocc": 2, "n_exp_terms": 6})
    if tier == "thorough":
        out += [{"type": "avg", "norb": 3, "nelec": [1, 1], "nchol": 2}, {"type": "avg", "kind": "noci", "norb": 2, "nelec": [1, 1], "nchol": 1, "opt": {"ndets": 2}},
                {"type": "book", "kind": "noci", "norb": 3, "nelec": [1, 1], "n_walkers": 2, "opt": {"ndets": 2}}]
    return out


def _mk(args):
    return {"avg": FreeAvg, "book": Bookkeeping, "taylor": Taylor, "est": Estimator}[args["type"]](args)


def run(args, seed, known):
    c = _mk(args)
    if args["type"] == "avg":
        return engine_g.run_gcase(c, seed=seed, known=known)
    return engine.run_case(c, seed=seed, known=known)


def replay(data):
    c = _mk(data["case_args"])
    if data["case_args"]["type"] == "avg":
        return engine_g.replay_file_g(c, data)
    return engine.replay_file(c, data)
