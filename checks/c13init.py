"""C13, initial walkers (restricted, closed shell, one electron per spin): PX on the real wave_function.get_init_walkers.

The method is eager Python/NumPy with two data-dependent branches (|det(up^T dn)| > 1e-3; the averaged determinant's overlap
> 1e-3; else ValueError).  It is run unmodified on object arrays of symbolic reals; the branch tests become solver-decided path
splits.  LAPACK is replaced by its contract:
  * jnp.linalg.eigh(rdm1[s]) -> eigenvector matrix whose LAST column is g_s * c_s, g_s in {+1,-1} arbitrary (the sign gauge),
    the other columns arbitrary symbols.  The contract obligation (rdm1[s] v = v, |v| = 1, for rdm1[s] = c_s c_s^T of a
    one-electron-per-spin single determinant) is discharged as its own query; that rdm1 really is C C^T is the init-rdm1 case.
  * np.linalg.qr(v) of a column -> (q, [[r]]) with q r = v, q.q = 1, r of either sign (LAPACK's contract); np.linalg.det of a k x k object matrix
    by Leibniz expansion.
Unit vectors c_up, c_dn are symbolic with the polynomial constraint |c|^2 = 1; divisions are stated division-free (q r = v).
Obligations on every path that RETURNS walkers: every walker is the same orthonormal column; |<psi_T|walker>| = |(c_up.w)(c_dn.w)|
> 1e-3 (the code's own acceptance threshold), i.e. 'bounded away from zero or ValueError'.  A model is replayed on the real code
with float orbitals (real eigh/qr, real uhf.calc_overlap) before it is reported."""
import itertools
import json
import os
import time
import traceback
from fractions import Fraction

import numpy as np
import z3

from vf import px
from vf.explore import Explorer, Budget
from vf.px import SR, zr

THR = Fraction(1, 1000)


def _det(A):
    k = A.shape[0]
    if A.shape != (k, k):
        raise ValueError("det of a non-square matrix")
    tot = 0
    for perm in itertools.permutations(range(k)):
        sgn = 1
        for i in range(k):
            for j in range(i + 1, k):
                if perm[i] > perm[j]:
                    sgn = -sgn
        t = sgn
        for i in range(k):
            t = A[i, perm[i]] * t
        tot = t + tot
    return tot


class _LinalgNP:
    def __init__(self, host):
        self.host = host

    def det(self, A):
        return _det(np.asarray(A, dtype=object))

    def qr(self, A):
        A = np.asarray(A, dtype=object)
        if A.shape[1] != 1:
            raise NotImplementedError("qr contract only for one column (bound of this case)")
        # contract of a thin QR of one column: v = q r with q^T q = 1 (r of either sign, r = 0 iff v = 0); stated division-free
        k = len(self.host.facts)
        r = SR(f"qr_r{k}")
        self.host.extra_vars.append(r.e)
        Qm = np.empty(A.shape, dtype=object)
        nrm = 0
        for i in range(A.shape[0]):
            q = SR(f"qr_q{k}_{i}")
            self.host.facts.append(q.e * r.e == zr(A[i, 0]))
            self.host.extra_vars.append(q.e)
            Qm[i, 0] = q
            nrm = q.e * q.e + nrm
        self.host.facts.append(nrm == 1)
        R = np.empty((1, 1), dtype=object)
        R[0, 0] = r
        return Qm, R


class _NP(px.ObjNP):
    def __init__(self, host):
        super().__init__()
        self.linalg = _LinalgNP(host)

    def einsum(self, spec, *ops):
        if spec == "ij,j->ij":
            A, s = ops
            return np.asarray(A, dtype=object) * np.asarray(s, dtype=object)[None, :]
        return np.einsum(spec, *ops)

    def array(self, x, *a, **k):
        return np.array(x, dtype=object)


class _LinalgJNP:
    def __init__(self, host):
        self.host = host

    def eigh(self, M):
        V = self.host.eig_queue.pop(0)
        self.host.eig_seen.append((M, V))
        return None, V

    def qr(self, *a, **k):
        raise NotImplementedError("open-shell branch is outside this case")


class _JNP:
    def __init__(self, host):
        self.linalg = _LinalgJNP(host)

    def array(self, x, *a, **k):
        return np.array(x, dtype=object)


def unit(names):
    return [SR(nm) for nm in names]


def unit_pre(names):
    return [sum((z3.Real(nm) * z3.Real(nm) for nm in names[1:]), z3.Real(names[0]) * z3.Real(names[0])) == 1]


def unit_f(vals):
    v = np.array([float(x) for x in vals])
    return v / np.linalg.norm(v)  # the model may be an approximated algebraic number: renormalised for the replay


class Host:
    pass


def run_case(args, known):
    """the eigenvector sign gauge (g_up, g_dn) in {+1,-1}^2 is a finite domain: one exploration per value (keeps every query's
    degree minimal); everything else is symbolic"""
    out = None
    for g in ([tuple(args["gauge"])] if args.get("gauge") else itertools.product((1, -1), repeat=2)):
        r = run_gauge(args, known, g)
        if out is None:
            out = r
        else:
            for k in ("obligations", "violations", "inconclusive", "errors", "known"):
                out[k] += r[k]
            out["paths"] += r["paths"]
    return out


def run_gauge(args, known, gauge):
    from ad_afqmc import wavefunctions as wf
    n, nw = args["norb"], args.get("n_walkers", 2)
    name = f"init-walkers:uhf:restricted:({n};1,1):nw={nw}:gauge={gauge[0]:+d}{gauge[1]:+d}"
    res = {"case": name, "obligations": [], "violations": [], "inconclusive": [], "errors": [], "known": [], "samples": [],
           "functions": ["ad_afqmc.wavefunctions.wave_function.get_init_walkers", "ad_afqmc.wavefunctions.wave_function.get_rdm1"], "paths": 0}
    tu = [f"cu{i}" for i in range(n)]
    td = [f"cd{i}" for i in range(n)]
    gu, gd = gauge
    gtag = f"gauge={gu:+d}{gd:+d}"
    variables = [z3.Real(x) for x in tu + td]
    pre = unit_pre(tu) + unit_pre(td)
    trial = wf.uhf(n, (1, 1))
    host = Host()

    def body():
        host.facts, host.extra_vars, host.eig_seen = [], [], []
        cu, cd = unit(tu), unit(td)
        host.c = (cu, cd)
        rd = np.empty((2, n, n), dtype=object)
        for s, c in enumerate((cu, cd)):
            for i in range(n):
                for j in range(n):
                    rd[s, i, j] = c[i] * c[j]
        host.eig_queue = []
        for s, (c, g) in enumerate(((cu, gu), (cd, gd))):
            V = np.empty((n, n), dtype=object)
            for i in range(n):
                for j in range(n - 1):
                    V[i, j] = SR(f"evec{s}_{i}{j}")
                V[i, n - 1] = c[i] * g
            host.eig_queue.append(V)
        old = (wf.np, wf.jnp)
        wf.np, wf.jnp = _NP(host), _JNP(host)
        try:
            try:
                W = trial.get_init_walkers({"rdm1": rd}, nw, restricted=True)
                return ("walkers", W)
            except ValueError as ex:
                return ("refused", str(ex))
        finally:
            wf.np, wf.jnp = old

    def concrete(w):
        import jax.numpy as jnp
        cu = unit_f([Fraction(*w[x]) for x in tu])
        cd = unit_f([Fraction(*w[x]) for x in td])
        wd = {"mo_coeff": [jnp.array(cu[:, None]), jnp.array(cd[:, None])]}
        wd["rdm1"] = trial.get_rdm1(wd)
        try:
            W = trial.get_init_walkers(wd, nw, restricted=True)
        except ValueError:
            return False, "real code refuses with ValueError"
        ov = np.asarray(trial.calc_overlap(W, wd))
        Wn = np.asarray(W)
        bad = bool(np.any(np.abs(ov) <= float(THR))) or bool(np.abs(Wn[0].conj().T @ Wn[0] - 1).max() > 1e-8) or bool(np.abs(Wn - Wn[0]).max() > 0)
        return bad, f"get_init_walkers(restricted=True) returned walkers with |<psi_T|walker>| = {np.abs(ov).tolist()} (threshold {float(THR)}), c_up={cu.tolist()}, c_dn={cd.tolist()}"

    def check(label, asserts, vars_, weak=None):
        """weak: the same negated goal under FEWER assumptions (path condition only); unsat there implies unsat of the full query"""
        label = label + ":" + gtag
        t0 = time.time()
        r = "unknown"
        if weak is not None:
            s = z3.Solver()
            s.set("timeout", 10000)
            s.add(*weak)
            r = str(s.check())
        if r != "unsat":
            s = z3.Solver()
            s.set("timeout", 120000)  # measured 4 s on an idle machine; generous because vp check runs under load
            s.add(*asserts)
            r = str(s.check())
        ob = {"label": label, "status": r, "seconds": round(time.time() - t0, 3), "how": "NRA"}
        if len(res["samples"]) < 2:
            txt = s.to_smt2()
            res["samples"].append({"label": label, "smt2_head": txt[:1000], "smt2_bytes": len(txt)})
        if r == "sat":
            m = s.model()
            w = {}
            for v in vars_:
                val = m.eval(v, model_completion=True)
                if z3.is_algebraic_value(val):
                    val = val.approx(20)
                w[str(v)] = [val.numerator_as_long(), val.denominator_as_long()]
            bad, detail = concrete(w)
            if bad:
                from vf.engine import VERIF
                d = os.path.join(VERIF, "replays")
                os.makedirs(d, exist_ok=True)
                safe = "".join(ch if ch.isalnum() or ch in "-_." else "_" for ch in f"C13_{name}__{label}")
                path = os.path.join(d, safe + ".json")
                json.dump({"check": "C13", "case_args": args, "label": label, "witness": w, "detail": detail}, open(path, "w"), indent=1)
                key = f"{name}:{label.split('/')[0]}"
                v = {"label": label, "key": key, "replay": path, "detail": detail}
                if key in (known or {}):
                    res["known"].append(v)
                    ob["status"] = "known-finding"
                else:
                    res["violations"].append(v)
                    ob["status"] = "violated"
            else:
                ob["status"] = "spurious"
                res["errors"].append(f"{label}: model does not reproduce on the real code ({detail})")
        elif r != "unsat":
            res["inconclusive"].append(label)
        res["obligations"].append(ob)

    ex = Explorer(pre=pre, max_paths=200, variables=variables)
    k = returned = refused = 0
    thr = zr(THR)
    for pc, (kind, W) in ex.paths(body):
        k += 1
        base = pre + pc + host.facts
        vars_ = variables + host.extra_vars
        # eigh contract instances: rdm1[s] v = v and |v| = 1
        for s, (M, V) in enumerate(host.eig_seen):
            v = V[:, n - 1]
            bad = [zr(sum((M[i, j] * v[j] for j in range(1, n)), M[i, 0] * v[0])) != zr(v[i]) for i in range(n)]
            bad.append(zr(sum((v[i] * v[i] for i in range(1, n)), v[0] * v[0])) != 1)
            # needs only |c| = 1 (fewer assumptions than the path: sound, and keeps the QR facts out of the query)
            check(f"eigh_contract_instance[{s}]/path{k}", pre + [z3.Or(*bad)], vars_)
        if kind == "refused":
            refused += 1
            continue
        returned += 1
        cu, cd = host.c
        W = np.asarray(W, dtype=object)
        w0 = W[0][:, 0]
        du = zr(sum((cu[i] * w0[i] for i in range(1, n)), cu[0] * w0[0]))
        dd = zr(sum((cd[i] * w0[i] for i in range(1, n)), cd[0] * w0[0]))
        ov = du * dd
        check(f"overlap_above_threshold/path{k}", base + [z3.And(ov <= thr, -ov <= thr)], vars_, weak=pc + [z3.And(ov <= thr, -ov <= thr)])
        check(f"orthonormal/path{k}", base + [zr(sum((w0[i] * w0[i] for i in range(1, n)), w0[0] * w0[0])) != 1], vars_)
        same = [zr(W[a][i, 0]) != zr(w0[i]) for a in range(1, nw) for i in range(n)]
        check(f"identical_copies/path{k}", base + [z3.Or(*same)] if same else base + [z3.BoolVal(False)], vars_)
        if W.shape != (nw, n, 1):
            res["errors"].append(f"shape {W.shape}")
    res["paths"] = k
    # vacuity: both outcomes must be reachable
    if returned == 0 or refused == 0:
        res["errors"].append(f"vacuity: returned={returned} refused={refused} (both outcomes must be reachable)")
    if getattr(ex, "unproved_failures", 0):
        res["inconclusive"].append(f"{ex.unproved_failures} path(s) admitted after an unknown feasibility query")
    return res


def run(args, seed, known):
    t0 = time.time()
    try:
        res = run_case(args, known)
    except Budget as ex:
        res = {"case": "init-walkers", "obligations": [], "violations": [], "inconclusive": [f"path budget: {ex}"], "errors": [], "known": [], "samples": [], "functions": [], "paths": 0}
    except Exception as ex:
        res = {"case": "init-walkers", "obligations": [], "violations": [], "inconclusive": [], "known": [], "samples": [], "functions": [], "paths": 0,
               "errors": [f"{type(ex).__name__}: {ex}\n{traceback.format_exc()[-1500:]}"]}
    res["wall_s"] = round(time.time() - t0, 3)
    return res
