"""C12 - all sampler entry points compute the same, correct block estimator.

(a) callable: every entry point x (plain call | jax.jvp | jax.vjp, as driver.afqmc uses them) x walker type x n_batch is traced;
    tracing is symbolic execution over shapes - exact, not sampled - and an exception is a violation.
(b) same energy: with _block_scan, stochastic_reconfiguration_local and the trial/Hamiltonian builders as uninterpreted named calls
    (congruence, A3) and optimize() the identity (converged trial, as the property states), the energies returned by the entry points
    are terms over the same block atoms: plain == _ad == _ad_norot for the same (n_prop_steps, n_ene_blocks, n_sr_blocks),
    _ad_nosr == _ad_nosr_norot, and with one reconfiguration block the no-SR variants equal the plain sampler.
(c) the block estimator of _block_scan: block energy = sum_w w * cap(Re E_L(w)) / sum_w w with cap replacing samples further than
    sqrt(2/dt) from e_estimate by e_estimate, E_L the local energies of the RETURNED walkers, block weight = sum_w w
    (propagate, QR and the single-walker energy routine uninterpreted).
"""
import itertools
import time
import traceback

import numpy as np
import z3

from vf import engine, qdom
from vf.jx import arr, obj
from vf.qdom import Q
from . import common as cm
from .c08 import ENTRIES

META = {
    "level": "model_checking",
    "trusted": ["z3 5.1.0", "JAX tracing (A6): a trace-time exception is exactly a call that cannot succeed for that option combination",
                "uninterpreted named calls with congruence (A3): _block_scan, stochastic_reconfiguration_local, propagate, qr_vmap(_uhf), "
                "_calc_energy(_restricted); optimize() = identity (converged trial)"],
    "assumptions": ["converged trial: optimize() returns the orbitals it was given (the property's premise)", "coupling = 0 for the cross-entry-point comparison",
                    "bit-reproducibility on hardware is outside the model: the traced jaxpr is a pure function of its inputs, including the key"],
    "bounds": {"quick": "2 walkers, (2;1,1;1), block structures (2,2,1), (1,2,2), (2,1,2); n_batch 1, 2; restricted and unrestricted walkers",
               "thorough": "4 walkers, (3;2,1;1)"},
    "outside": "whole driver runs, MPI, hardware bit-reproducibility",
}


def setup(restricted, blocks, nw=2, n_batch=1, norb=2, nelec=(1, 1)):
    import jax
    import jax.numpy as jnp
    from ad_afqmc import wavefunctions, propagation, sampling, hamiltonian
    ham = hamiltonian.hamiltonian(norb)
    if restricted:
        trial = wavefunctions.rhf(norb, nelec, n_opt_iter=1, n_batch=n_batch)
        prop = propagation.propagator_restricted(dt=0.01, n_walkers=nw, n_exp_terms=2, n_batch=n_batch)
    else:
        trial = wavefunctions.uhf(norb, nelec, n_opt_iter=1, n_batch=n_batch)
        prop = propagation.propagator_unrestricted(dt=0.01, n_walkers=nw, n_exp_terms=2, n_batch=n_batch)
    smp = sampling.sampler(n_prop_steps=blocks[0], n_ene_blocks=blocks[1], n_sr_blocks=blocks[2], n_blocks=1)
    rng = np.random.default_rng(2)
    h1 = np.round(rng.normal(size=(norb, norb)), 2)
    L = np.round(rng.normal(size=(1, norb, norb)), 2)
    hd0 = {"h0": 0.1, "h1": jnp.array([h1 + h1.T, h1 + h1.T]), "chol": jnp.array((L + L.transpose(0, 2, 1)).reshape(1, -1)), "ene0": 0.0}
    return ham, trial, prop, smp, hd0, jax.random.PRNGKey(0)


def run_entry(entry, ham, trial, prop, smp, hd0, key, W, weights, Es, wd, mode="plain", coupling=0.0):
    import jax
    import jax.numpy as jnp
    hd = dict(hd0)
    pd = {"walkers": W, "weights": weights, "overlaps": trial.calc_overlap(W, wd), "e_estimate": Es, "pop_control_ene_shift": Es,
          "key": key, "n_killed_walkers": 0}
    if entry == "propagate_phaseless":
        hd = ham.build_measurement_intermediates(hd, trial, wd)
        hd = ham.build_propagation_intermediates(hd, prop, trial, wd)
        return smp.propagate_phaseless(ham, hd, prop, pd, trial, wd)[0]
    obs = jnp.zeros_like(hd["h1"]) + 0.1
    fn = getattr(smp, entry)
    if mode == "plain":
        return fn(ham, hd, coupling, obs, prop, pd, trial, wd)[0]
    if mode == "jvp":
        # as driver.afqmc: derivative with respect to the coupling
        f = lambda c: fn(ham, hd, c, obs, prop, pd, trial, wd)
        (e, _), (de, _) = jax.jvp(lambda c: f(c), [coupling], [1.0])
        return e
    f = lambda o: fn(ham, hd, 1.0, o, prop, pd, trial, wd)[0]
    e, grad_fun = jax.vjp(f, 0.0 * obs)
    grad_fun(1.0)
    return e


def wave(restricted, norb, nelec):
    import jax.numpy as jnp
    C = np.eye(norb)
    if restricted:
        c = jnp.array(C[:, : nelec[0]])
        return {"mo_coeff": c, "rdm1": jnp.array([c @ c.T, c @ c.T])}
    cu, cd = jnp.array(C[:, : nelec[0]]), jnp.array(C[:, : nelec[1]])
    return {"mo_coeff": [cu, cd], "rdm1": jnp.array([cu @ cu.T, cd @ cd.T])}


def run_callable(args, seed, known):
    """trace every entry point the way the driver calls it"""
    import jax
    import jax.numpy as jnp
    res = {"case": "callable:" + ("restricted" if args["restricted"] else "unrestricted") + f":n_batch={args['n_batch']}", "obligations": [],
           "violations": [], "inconclusive": [], "errors": [], "known": [], "samples": [],
           "functions": [f"ad_afqmc.sampling.sampler.{e}" for e in ENTRIES]}
    t0 = time.time()
    restricted, nb = args["restricted"], args["n_batch"]
    nw = 2 * nb
    norb, nelec = 2, (1, 1)
    ham, trial, prop, smp, hd0, key = setup(restricted, (1, 1, 1), nw=nw, n_batch=nb)
    wd = wave(restricted, norb, nelec)
    rng = np.random.default_rng(1)
    Wu = jnp.array(rng.normal(size=(nw, norb, 1)) + 1j * rng.normal(size=(nw, norb, 1)))
    W = Wu if restricted else [Wu, jnp.array(rng.normal(size=(nw, norb, 1)) + 0j)]
    for entry in ENTRIES:
        for mode in (("plain",) if entry == "propagate_phaseless" else ("plain", "jvp", "vjp")):
            label = f"{entry}:{mode}"
            ob = {"label": label, "seconds": 0.0, "how": "tracing (jax.make_jaxpr)"}
            try:
                jax.make_jaxpr(lambda w, e: run_entry(entry, ham, trial, prop, smp, hd0, key, W, w, e, wd, mode))(jnp.ones(nw), 0.3)
                ob["status"] = "unsat"
            except Exception as ex:
                ob["status"] = "violated"
                key_ = f"{res['case']}:{label}"
                from vf.engine import VERIF
                import json, os
                os.makedirs(os.path.join(VERIF, "replays"), exist_ok=True)
                path = os.path.join(VERIF, "replays", "C12_" + "".join(ch if ch.isalnum() else "_" for ch in key_) + ".json")
                json.dump({"check": "C12", "case_args": args, "label": label, "error": f"{type(ex).__name__}: {ex}"[:500]}, open(path, "w"))
                v = {"label": label, "key": key_, "replay": path, "detail": f"cannot be called: {type(ex).__name__}: {str(ex)[:200]}"}
                (res["known"] if key_ in (known or {}) else res["violations"]).append(v)
            res["obligations"].append(ob)
    res["wall_s"] = round(time.time() - t0, 3)
    return res


class SameEnergy(engine.Case):
    check_id = "C12"
    stubs = dict(det=True, inv=True, expm=True, qr=False, eigh=False, random=True)
    n_validate = 0
    n_prescreen = 0
    holo = False

    def __init__(self, args):
        self.args = args
        self.restricted, self.blocks = bool(args["restricted"]), tuple(args["blocks"])
        self.nw, self.norb, self.nelec = 2, 2, (1, 1)
        self.name = f"same-energy:{'restricted' if self.restricted else 'unrestricted'}:blocks={'x'.join(map(str, self.blocks))}"
        self.ham, self.trial, self.prop, self.smp, self.hd0, self.key = setup(self.restricted, self.blocks)
        self.wd = wave(self.restricted, self.norb, self.nelec)
        self.tol = 1e-9

    def functions(self):
        return [f"ad_afqmc.sampling.sampler.{e}" for e in ENTRIES] + ["ad_afqmc.sampling.sampler._ad_block", "ad_afqmc.sampling.sampler._sr_block_scan"]

    def inputs(self, V):
        n, nw = self.norb, self.nw
        d = {"Wu": arr((nw, n, 1), lambda i: V.c(f"wu{i[0]}_{i[1]}")), "weights": arr((nw,), lambda i: V.r(f"wt{i[0]}")), "Es": arr((), lambda i: V.r("Es"))}
        if not self.restricted:
            d["Wd"] = arr((nw, n, 1), lambda i: V.c(f"wd{i[0]}_{i[1]}"))
        return d

    def conc(self, seed):
        return engine.ConcV(seed, lo=1, hi=3, den=(2, 3))

    def replay_variants(self, vals):
        """the solver model fixes only the inputs; energies and weights are computed by the real code, so replay on benign
        populations: positive weights, moderate e_estimate, and seeded random walkers"""
        from fractions import Fraction
        import random
        v = dict(vals)
        for k in v:
            if k.startswith("wt"):
                v[k] = abs(v[k]) + Fraction(1, 2)
        v["Es"] = Fraction(0)
        yield v
        for sd in (1, 2, 3):
            rng = random.Random(sd)
            v2 = {k: Fraction(rng.randint(-5, 5), rng.choice([2, 3, 4])) for k in vals}
            for k in v2:
                if k.startswith("wt"):
                    v2[k] = Fraction(rng.randint(2, 5), 4)
            v2["Es"] = Fraction(rng.randint(-2, 2), 2)
            yield v2

    def prepare_interp(self, it, inp):
        it.opaque_calls = {"_block_scan": None, "stochastic_reconfiguration_local": None, "optimize": {"identity_tail": True}}

    def call(self, **kw):
        W = kw["Wu"] if self.restricted else [kw["Wu"], kw["Wd"]]
        return [run_entry(e, self.ham, self.trial, self.prop, self.smp, self.hd0, self.key, W, kw["weights"], kw["Es"], self.wd) for e in ENTRIES]

    def relations(self, inp, out):
        e = dict(zip(ENTRIES, [o[()] for o in out]))
        rels = [("ad == plain", e["propagate_phaseless_ad"], e["propagate_phaseless"]),
                ("ad_norot == plain", e["propagate_phaseless_ad_norot"], e["propagate_phaseless"]),
                ("ad_nosr == ad_nosr_norot", e["propagate_phaseless_ad_nosr"], e["propagate_phaseless_ad_nosr_norot"])]
        if self.blocks[2] == 1:
            rels.append(("ad_nosr_norot == plain (one reconfiguration block)", e["propagate_phaseless_ad_nosr_norot"], e["propagate_phaseless"]))
        return rels


class Estimator(engine.Case):
    check_id = "C12"
    stubs = dict(det=True, inv=True, expm=True, qr=False, eigh=False, random=True)
    n_validate = 0
    n_prescreen = 0
    holo = False

    def __init__(self, args):
        self.args = args
        self.restricted = bool(args["restricted"])
        self.nw, self.norb, self.nelec = 2, 2, (1, 1)
        self.name = f"block-estimator:{'restricted' if self.restricted else 'unrestricted'}"
        self.ham, self.trial, self.prop, self.smp, self.hd0, self.key = setup(self.restricted, (1, 1, 1))
        self.wd = wave(self.restricted, self.norb, self.nelec)
        self.tol = 1e-9

    def functions(self):
        return ["ad_afqmc.sampling.sampler._block_scan"]

    inputs = SameEnergy.inputs

    def conc(self, seed):
        return engine.ConcV(seed, lo=1, hi=3, den=(2, 3))

    def replay_variants(self, vals):
        from fractions import Fraction
        for es in (Fraction(40), Fraction(-40), Fraction(0)):
            v = dict(vals)
            v["Es"] = es
            for k in v:
                if k.startswith("wt"):
                    v[k] = abs(v[k]) + Fraction(1, 2)
            yield v

    def prepare_interp(self, it, inp):
        from .c08 import Coherence

        def derived(e):
            ov = [k for k, v in enumerate(e.outvars) if np.issubdtype(v.aval.dtype, np.complexfloating) and len(v.aval.shape) == 1]
            wk = [k for k, v in enumerate(e.outvars) if np.issubdtype(v.aval.dtype, np.complexfloating) and len(v.aval.shape) == 3]
            return {ov[0]: wk}
        it.opaque_calls = {"propagate": {"real": [], "derived": derived}, "qr_vmap": None, "qr_vmap_uhf": None,
                           "_calc_energy_restricted": None, "_calc_energy": None}

    def call(self, **kw):
        W = kw["Wu"] if self.restricted else [kw["Wu"], kw["Wd"]]
        hd = self.ham.build_measurement_intermediates(dict(self.hd0), self.trial, self.wd)
        hd = self.ham.build_propagation_intermediates(hd, self.prop, self.trial, self.wd)
        pd = {"walkers": W, "weights": kw["weights"], "overlaps": self.trial.calc_overlap(W, self.wd), "e_estimate": kw["Es"],
              "pop_control_ene_shift": kw["Es"], "key": self.key, "n_killed_walkers": 0}
        pd, (be, bw) = self.smp._block_scan(pd, None, hd, self.prop, self.trial, self.wd)
        E = self.trial.calc_energy(pd["walkers"], hd, self.wd)
        return be, bw, E, pd["weights"], pd["e_estimate"], pd["overlaps"], self.trial.calc_overlap(pd["walkers"], self.wd)

    def relations(self, inp, out):
        be, bw, E, w, eest, ov, ov2 = out
        numeric = not isinstance(be[()], Q)
        thr = (2.0 / 0.01) ** 0.5
        num = None
        den = None
        for k in range(self.nw):
            if numeric:
                re = complex(E[k]).real
                capped = complex(eest[()]).real if abs(re - complex(eest[()]).real) > thr else re
                t = capped * complex(w[k]).real
                wk = complex(w[k]).real
            else:
                re = E[k].real()
                d = re - eest[()]
                from fractions import Fraction
                # the code's threshold jnp.sqrt(2.0 / dt): the same square-root atom (s >= 0, s*s = 2/dt)
                far = qdom.compare("gt", qdom.qabs(d), qdom.opaque_fn("sqrt", [Q(Fraction(2.0 / 0.01))], True))
                capped = qdom.ite(far, eest[()], re)
                t = capped * w[k]
                wk = w[k]
            num = t if num is None else num + t
            den = wk if den is None else den + wk
        rels = [("block_weight", bw[()], den), ("block_energy", be[()] * den, num)]
        for k in range(self.nw):
            rels.append((f"returned_overlaps_refreshed[{k}]", ov[k], ov2[k]))
        return rels


def cases(tier):
    out = [{"type": "callable", "restricted": r, "n_batch": nb} for r in (True, False) for nb in (1, 2)]
    for r in (True, False):
        for blocks in ((2, 2, 1), (1, 2, 2), (2, 1, 2)):
            out.append({"type": "same", "restricted": r, "blocks": list(blocks)})
        out.append({"type": "est", "restricted": r})
    return out


def run(args, seed, known):
    if args["type"] == "callable":
        try:
            return run_callable(args, seed, known)
        except Exception as ex:
            return {"case": str(args), "obligations": [], "violations": [], "inconclusive": [], "known": [],
                    "errors": [f"{type(ex).__name__}: {ex}\n{traceback.format_exc()[-1500:]}"]}
    c = SameEnergy(args) if args["type"] == "same" else Estimator(args)
    return engine.run_case(c, seed=seed, known=known)


def replay(data):
    a = data["case_args"]
    if a["type"] == "callable":
        return {"violates": True, "summary": data.get("error", "")}
    c = SameEnergy(a) if a["type"] == "same" else Estimator(a)
    return engine.replay_file(c, data)
